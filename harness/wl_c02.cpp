// C02 — no lost wake-up: a resumed task always runs again.
#include "parties.hpp"

#include <pika/condition_variable.hpp>
#include <pika/execution_base/this_thread.hpp>
#include <pika/latch.hpp>
#include <pika/mutex.hpp>
#include <pika/semaphore.hpp>
#include <pika/threading_base/thread_helpers.hpp>
#include <pika/synchronization/event.hpp>

#include <memory>

using namespace vh;
namespace ex = pika::execution::experimental;
namespace tt = pika::this_thread::experimental;

namespace {

    std::vector<std::string> const c02_focus = {"execution_agent::do_yield", "execution_agent::do_resume",
        "detail::set_thread_state", "set_active_state", "scheduling_loop", "condition_variable::wait",
        "condition_variable::notify", "thread_data::restore_state", "switch_status"};
    struct FocusInit
    {
        FocusInit()
        {
            for (auto& s : c02_focus) focus_patterns().push_back(s);
        }
    } focus_init;

    enum
    {
        M_RAW = 0,
        M_CV = 1,
        M_SEM = 2,
        M_LATCH = 3,
        M_EVENT = 4,
        M_JOIN = 5,
        M_SYNC_WAIT_OS = 6,
        M_MUTEX = 7,
        M_TIMED_CV = 8,     // condition_variable::wait_for(pred) with a far deadline: the waiter yields (boosted) instead of suspending
        M_TIMED_SEM = 9,    // counting_semaphore::try_acquire_for with a far deadline
        M_RAW_ABORT = 10,   // raw suspend woken with restart reason "abort" first (the waiter survives it), then a normal wait
        M_INTERRUPT = 11,   // a waiter blocked for good (raw suspend / semaphore / condition variable that nobody signals)
                            // is woken by thread interruption (interrupt_thread: the wake-up with restart reason abort)
        M_COUNT = 12
    };

    struct Pair
    {
        int mech = 0;
        int waker_os = 0;
        int waker_delay = 0;
        int pre_yields = 0;
        int extra = 0;
        // state
        bool registered = false;
        bool wake_invoked = false;
        bool wake_returned = false;
        int resumed = 0;
        uint64_t wake_inv_seq = 0;
        bool flag = false;    // predicate / body release
        pika::execution::detail::agent_ref ctx;
        pika::mutex mtx;
        pika::condition_variable cv;
        pika::counting_semaphore<> sem{0};
        pika::latch latch{1};
        pika::experimental::event event;
        pika::thread target;
        bool target_registered = false;
        // additional waiters on the same latch / semaphore (one wake-up operation has to release them all)
        int co_waiters = 0, co_registered = 0, co_resumed = 0;
        bool abort_registered = false, aborted = false;    // M_RAW_ABORT
        pika::threads::detail::thread_id_ref_type tid;       // M_INTERRUPT: keeps the waiter's thread object alive
    };
    std::vector<std::unique_ptr<Pair>> pairs;

    void yield_here(bool os, int times)
    {
        for (int i = 0; i < times; i++)
        {
            if (os)
                std::this_thread::yield();
            else
                pika::this_thread::yield();
        }
    }

    void resumed_check(Pair& p, int idx, bool sticky)
    {
        // for facilities without a "sticky" wake-up the waiter must not return before the wake-up
        // was invoked
        if (!sticky)
            VH_CHECK(p.wake_invoked, "C02.spurious_resume",
                "waiter %d (mechanism %d) returned from blocking before any wake-up was issued", idx, p.mech);
        p.resumed++;
        VH_CHECK(p.resumed == 1, "C02.double_resume", "waiter %d resumed %d times for one wait", idx, p.resumed);
        ev(2, idx, p.mech);
    }

    void waiter(int idx)
    {
        Pair& p = *pairs[(size_t) idx];
        bool const os = p.mech == M_SYNC_WAIT_OS;
        yield_here(os, p.pre_yields);
        switch (p.mech)
        {
        case M_RAW:
            p.ctx = pika::execution::this_thread::detail::agent();
            p.registered = true;
            ev(1, idx, p.mech);
            p.ctx.suspend("C02 raw suspend");
            resumed_check(p, idx, false);
            break;
        case M_RAW_ABORT:
        {
            p.ctx = pika::execution::this_thread::detail::agent();
            p.abort_registered = true;
            try
            {
                p.ctx.suspend("C02 raw suspend, to be aborted");
                VH_CHECK(false, "C02.spurious_resume", "waiter %d: a suspend that is only ever aborted returned normally", idx);
            }
            catch (pika::exception const& e)
            {
                VH_CHECK(e.get_error() == pika::error::yield_aborted, "C02.harness", "waiter %d: unexpected error %d", idx, (int) e.get_error());
                p.aborted = true;
                probe("waiter_survived_abort");
            }
            p.registered = true;
            ev(1, idx, p.mech);
            p.ctx.suspend("C02 raw suspend after an abort");
            resumed_check(p, idx, false);
            break;
        }
        case M_INTERRUPT:
        {
            p.tid = pika::threads::detail::thread_id_ref_type(pika::threads::detail::get_self_id());
            p.registered = true;
            ev(1, idx, p.mech);
            try
            {
                if (p.extra == 1)
                    p.sem.acquire();
                else if (p.extra == 2)
                {
                    std::unique_lock<pika::mutex> l(p.mtx);
                    p.cv.wait(l);
                }
                else
                    pika::execution::this_thread::detail::agent().suspend("C02 suspend, to be interrupted");
                VH_CHECK(false, "C02.spurious_resume", "waiter %d: a wait that nobody signals returned normally", idx);
            }
            catch (pika::thread_interrupted const&)
            {
                probe("waiter_interrupted");
            }
            // (no further suspension in this task: the second step of interrupt_thread may still be under way)
            resumed_check(p, idx, false);
            break;
        }
        case M_CV:
        {
            std::unique_lock<pika::mutex> l(p.mtx);
            p.registered = true;
            ev(1, idx, p.mech);
            p.cv.wait(l, [&p] { return p.flag; });
            resumed_check(p, idx, false);
            break;
        }
        case M_SEM:
            for (int k = 0; k < p.co_waiters; k++)
                ex::execute(ex::thread_pool_scheduler{}, [&p] {
                    p.co_registered++;
                    p.sem.acquire();
                    VH_CHECK(p.wake_invoked, "C02.spurious_resume", "a co-waiter acquired the semaphore before the release");
                    p.co_resumed++;
                });
            p.registered = true;
            ev(1, idx, p.mech);
            p.sem.acquire();
            resumed_check(p, idx, false);
            break;
        case M_TIMED_CV:
        {
            std::unique_lock<pika::mutex> l(p.mtx);
            p.registered = true;
            ev(1, idx, p.mech);
            // pika tasks implement a timed wait by yielding (boosted) until the deadline: the wait returns at
            // its deadline, notified or not. One timed wait; if the wake-up did not make it before the
            // deadline, an untimed wait follows (no polling loop: it would starve the waker, see C01).
            bool r = p.cv.wait_for(l, std::chrono::microseconds(300 + 500 * p.extra), [&p] { return p.flag; });
            VH_CHECK(r == p.flag, "C02.timed_wait_result", "waiter %d: wait_for(pred) returned %d, predicate %d", idx, (int) r,
                (int) p.flag);
            if (!r)
            {
                probe("timed_cv_wait_timed_out");
                p.cv.wait(l, [&p] { return p.flag; });
            }
            resumed_check(p, idx, false);
            probe("timed_cv_wait_woken");
            break;
        }
        case M_TIMED_SEM:
        {
            p.registered = true;
            ev(1, idx, p.mech);
            bool r = p.sem.try_acquire_for(std::chrono::microseconds(300 + 500 * p.extra));
            if (!r)
            {
                probe("timed_sem_wait_timed_out");
                p.sem.acquire();
            }
            resumed_check(p, idx, false);
            probe("timed_sem_wait_woken");
            break;
        }
        case M_LATCH:
            for (int k = 0; k < p.co_waiters; k++)
                ex::execute(ex::thread_pool_scheduler{}, [&p] {
                    p.co_registered++;
                    p.latch.wait();
                    VH_CHECK(p.wake_invoked, "C02.spurious_resume", "a co-waiter returned from latch::wait before count_down");
                    p.co_resumed++;
                });
            p.registered = true;
            ev(1, idx, p.mech);
            p.latch.wait();
            resumed_check(p, idx, false);
            break;
        case M_EVENT:
            p.registered = true;
            ev(1, idx, p.mech);
            p.event.wait();
            resumed_check(p, idx, false);
            break;
        case M_JOIN:
        {
            p.target = pika::thread([&p] {
                // the target blocks on its own semaphore until the waker lets it finish
                p.target_registered = true;
                p.sem.acquire();
            });
            p.registered = true;
            ev(1, idx, p.mech);
            p.target.join();
            resumed_check(p, idx, false);
            break;
        }
        case M_SYNC_WAIT_OS:
        {
            p.registered = true;
            ev(1, idx, p.mech);
            // the sender completes on the pool once the waker has released the semaphore
            tt::sync_wait(ex::schedule(ex::thread_pool_scheduler{}) | ex::then([&p] { p.sem.acquire(); }));
            resumed_check(p, idx, false);
            break;
        }
        case M_MUTEX:
        {
            // the waker holds the mutex before the waiter starts to lock it
            while (!p.flag) poll_pause(false);
            p.registered = true;
            ev(1, idx, p.mech);
            p.mtx.lock();
            resumed_check(p, idx, false);
            p.mtx.unlock();
            break;
        }
        default:
            break;
        }
    }

    void waker(int idx)
    {
        Pair& p = *pairs[(size_t) idx];
        bool const os = p.waker_os != 0;
        if (p.mech == M_MUTEX)
        {
            // pika::mutex needs a pika task: this waker is always a task
            p.mtx.lock();
            p.flag = true;
            while (!p.registered) poll_pause(false);
            yield_here(false, p.waker_delay);
            p.wake_invoked = true;
            p.wake_inv_seq = sim_seq();
            p.mtx.unlock();
            p.wake_returned = true;
            return;
        }
        if (p.mech == M_RAW_ABORT)
        {
            while (!p.abort_registered) poll_pause(os);
            yield_here(os, p.waker_delay & 1);
            p.ctx.abort("C02 raw abort");
        }
        while (!p.registered || p.co_registered < p.co_waiters) poll_pause(os);
        yield_here(os, p.waker_delay);
        p.wake_invoked = true;
        p.wake_inv_seq = sim_seq();
        ev(3, idx, p.mech);
        switch (p.mech)
        {
        case M_RAW_ABORT:
        case M_RAW:
            p.ctx.resume("C02 raw resume");
            break;
        case M_INTERRUPT:
            pika::threads::detail::interrupt_thread(p.tid.noref());
            p.tid = pika::threads::detail::thread_id_ref_type();    // (the runtime does not shut down while ids are held)
            break;
        case M_TIMED_CV:
        case M_CV:
        {
            if (os)
            {
                // pika::mutex cannot be locked from an OS thread: publish through a pool task
                tt::sync_wait(ex::schedule(ex::thread_pool_scheduler{}) | ex::then([&p] {
                    std::unique_lock<pika::mutex> l(p.mtx);
                    p.flag = true;
                }));
            }
            else
            {
                std::unique_lock<pika::mutex> l(p.mtx);
                p.flag = true;
            }
            p.cv.notify_one();
            for (int i = 0; i < p.extra; i++) p.cv.notify_all();
            break;
        }
        case M_TIMED_SEM:
        case M_SEM:
            // one release for the waiter and all co-waiters
            p.sem.release(1 + p.co_waiters);
            break;
        case M_LATCH:
            p.latch.count_down(1);
            break;
        case M_EVENT:
            p.event.set();
            for (int i = 0; i < p.extra; i++) p.event.set();
            break;
        case M_JOIN:
        case M_SYNC_WAIT_OS:
            p.sem.release();
            break;
        default:
            break;
        }
        p.wake_returned = true;
        ev(4, idx, p.mech);
    }

    void run_pairs(RunCtx& ctx)
    {
        pk::draw_runtime(ctx, ctx.thorough ? 8 : 5);
        Rng r(mix_seed(ctx.seed, 70));
        if (!ctx.program_from_replay)
        {
            Program prog;
            int n = (int) r.range(1, 8);
            for (int i = 0; i < n; i++)
            {
                Op op;
                op.v[0] = r.chance(35, 100) ? M_RAW : (int64_t) r.below(M_COUNT);
                op.v[1] = r.chance(1, 3) ? 1 : 0;    // waker on an OS thread
                op.v[2] = r.range(0, 4);             // waker delay (yields)
                op.v[3] = r.range(0, 3);             // waiter pre-yields
                op.v[4] = r.range(0, 2);             // extra wake-ups
                op.v[5] = r.chance(1, 2) ? r.range(1, 3) : 0;    // co-waiters on the same latch / semaphore
                prog.push_back(op);
            }
            ctx.program = prog;
        }
        sim_config sc = draw_sim_config(ctx, 60000, FAULT_STALL | FAULT_TRYFAIL | FAULT_SPURIOUS);
        begin_sim(ctx, sc);
        focus_select(ctx, c02_focus, 3);
        g_dump_hook = +[]() -> std::string {
            std::string s = pk::dump() + " | waiters:";
            for (size_t i = 0; i < pairs.size(); i++)
                s += sfmt(" [%zu mech %d reg=%d wake_inv=%d wake_ret=%d resumed=%d]", i, pairs[i]->mech,
                    (int) pairs[i]->registered, (int) pairs[i]->wake_invoked, (int) pairs[i]->wake_returned,
                    pairs[i]->resumed);
            return s;
        };
        pk::start(ctx);
        int n = (int) ctx.program.size();
        for (int i = 0; i < n; i++)
        {
            auto p = std::make_unique<Pair>();
            Op const& op = ctx.program[(size_t) i];
            p->mech = (int) (op.v[0] < 0 ? 0 : op.v[0] % M_COUNT);
            p->waker_os = (int) op.v[1];
            if (p->mech == M_MUTEX) p->waker_os = 0;
            // known finding (C13): under the shared-priority scheduler a pika::thread whose task is
            // staged on another worker's queue never gets an id and is not joinable
            if (p->mech == M_JOIN && pk::policy(ctx) == pk::POL_SHARED_PRIO) p->mech = M_SEM;
            p->waker_delay = (int) op.v[2];
            p->pre_yields = (int) op.v[3];
            p->extra = (int) op.v[4];
            p->co_waiters = (p->mech == M_LATCH || p->mech == M_SEM) ? (int) (op.v[5] & 3) : 0;
            if (p->co_waiters) probe("co_waiters");
            pairs.push_back(std::move(p));
        }
        // parties: 2i = waiter i, 2i+1 = waker i
        static Parties P;
        std::vector<int> kinds;
        for (int i = 0; i < n; i++)
        {
            kinds.push_back(pairs[(size_t) i]->mech == M_SYNC_WAIT_OS ? PARTY_OS : PARTY_TASK);
            kinds.push_back(pairs[(size_t) i]->waker_os ? PARTY_OS : PARTY_TASK);
        }
        P.launch(kinds, [](int i) {
            if (i % 2 == 0)
                waiter(i / 2);
            else
                waker(i / 2);
        });
        while (!P.all_finished()) main_pause();
        sim_quiesce(2000000);
        P.join_os();
        pika::wait();    // co-waiters are plain tasks, not parties
        for (int i = 0; i < n; i++)
        {
            Pair& p = *pairs[(size_t) i];
            VH_CHECK(p.resumed == 1, "C02.lost_wakeup", "waiter %d (mechanism %d) resumed %d times", i, p.mech, p.resumed);
            VH_CHECK(p.co_resumed == p.co_waiters, "C02.lost_wakeup", "pair %d (mechanism %d): %d of %d co-waiters resumed after one wake-up for all (%d registered) | %s", i,
                p.mech, p.co_resumed, p.co_waiters, p.co_registered, pk::dump().c_str());
            probe(sfmt("mech%d", p.mech).c_str());
        }
        focus_report();
        pk::stop();
    }

    Registrar r1(Workload{"C02", "pairs", 100, run_pairs, pk::preload});

}    // namespace
