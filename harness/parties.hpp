// Parties: scripted participants of a workload, each either a pika task or a plain OS thread.
#pragma once
#include "pk.hpp"

#include <pika/execution.hpp>
#include <pika/thread.hpp>

#include <chrono>
#include <functional>
#include <thread>
#include <vector>

namespace vh {

    enum
    {
        PARTY_TASK = 0,
        PARTY_OS = 1
    };

    struct Parties
    {
        int n = 0;
        std::vector<int> kind;
        std::vector<int> started;
        std::vector<int> finished;
        std::vector<std::thread> os;
        int nfinished = 0;

        // Launch n parties; body(i) runs as a pika task (default pool) or on an OS thread.
        template <typename Body>
        void launch(std::vector<int> const& kinds, Body body)
        {
            namespace ex = pika::execution::experimental;
            n = (int) kinds.size();
            kind = kinds;
            started.assign((size_t) n, 0);
            finished.assign((size_t) n, 0);
            os.reserve((size_t) n);
            for (int i = 0; i < n; i++)
            {
                auto fn = [this, i, body]() mutable {
                    started[(size_t) i] = 1;
                    body(i);
                    finished[(size_t) i] = 1;
                    nfinished++;
                };
                if (kinds[(size_t) i] == PARTY_OS)
                    os.emplace_back(fn);
                else
                    ex::start_detached(ex::schedule(ex::thread_pool_scheduler{}) | ex::then(fn));
            }
        }
        bool all_finished() const { return nfinished == n; }
        void join_os()
        {
            for (auto& t : os)
                if (t.joinable()) t.join();
        }
    };

    // a pika task "sleeps" by yielding until virtual time has passed (pika::this_thread::sleep_for is
    // timed suspension, which this version of pika does not support: at_timer throws)
    inline void task_sleep_us(int64_t us)
    {
        auto until = std::chrono::steady_clock::now() + std::chrono::microseconds(us);
        do {
            pika::this_thread::yield();
        } while (std::chrono::steady_clock::now() < until);
    }

    // Main-thread polling pause (virtual time; lets everybody else run). The parties execute their
    // programs in the *fault phase* (drawn strategy, faults on). Only when the main thread has been
    // polling for `fault_steps` schedule points without the workload finishing does the run enter the
    // quiescence phase (faults off, fair round-robin) with its liveness budget.
    inline void main_pause(uint64_t budget = 2000000, uint64_t fault_steps = 400000)
    {
        static uint64_t first = 0;
        static bool quiesced = false;
        uint64_t now = sim_seq();
        if (!first) first = now;
        if (!quiesced && now - first > fault_steps)
        {
            quiesced = true;
            sim_quiesce(budget);
        }
        std::this_thread::sleep_for(std::chrono::microseconds(2));
    }

}    // namespace vh
