// Parties: scripted participants of a workload, each either a pika task or a plain OS thread.
#pragma once
#include "pk.hpp"

#include <pika/execution.hpp>
#include <pika/execution_base/this_thread.hpp>
#include <pika/threading_base/thread_helpers.hpp>
#include <pika/thread.hpp>

#include <chrono>
#include <functional>
#include <thread>
#include <vector>

namespace vh {

    enum
    {
        PARTY_TASK = 0,
        PARTY_OS = 1
    };

    struct Parties
    {
        int n = 0;
        std::vector<int> kind;
        std::vector<int> started;
        std::vector<int> finished;
        std::vector<std::thread> os;
        int nfinished = 0;

        // Launch n parties; body(i) runs as a pika task (default pool) or on an OS thread.
        template <typename Body>
        void launch(std::vector<int> const& kinds, Body body)
        {
            namespace ex = pika::execution::experimental;
            n = (int) kinds.size();
            kind = kinds;
            started.assign((size_t) n, 0);
            finished.assign((size_t) n, 0);
            os.reserve((size_t) n);
            for (int i = 0; i < n; i++)
            {
                auto fn = [this, i, body]() mutable {
                    started[(size_t) i] = 1;
                    body(i);
                    finished[(size_t) i] = 1;
                    nfinished++;
                };
                if (kinds[(size_t) i] == PARTY_OS)
                    os.emplace_back(fn);
                else
                    ex::start_detached(ex::schedule(ex::thread_pool_scheduler{}) | ex::then(fn));
            }
        }
        bool all_finished() const { return nfinished == n; }
        void join_os()
        {
            for (auto& t : os)
                if (t.joinable()) t.join();
        }
    };

    // ---------------------------------------------------------------------------------------------
    // Polling pause for harness code that runs on a pika task and waits for another party's progress.
    // A task that polls by yielding is immediately runnable again and, in this version of pika, can keep a
    // task that sits in another producer's sub-queue of its worker from ever being dequeued (known finding
    // C01 kf_yield_starvation). Harness pollers therefore *park*: they suspend and are resumed by a ticker
    // (a plain OS thread), so that the worker is free in between. The code under test is not touched by this;
    // its own polling (barrier::wait, spinlocks, yield_while) stays what it is.
    struct PollSlot
    {
        pika::execution::detail::agent_ref ctx;
        int state = 0;    // 0 free, 3 claimed, 1 parked, 2 being resumed
    };
    inline PollSlot g_poll_slots[64];
    inline bool g_ticker_started = false, g_ticker_stop = false;
    inline std::thread g_ticker;
    inline void ticker_main()
    {
        while (!g_ticker_stop)
        {
            for (auto& s : g_poll_slots)
                if (s.state == 1)
                {
                    s.state = 2;
                    s.ctx.resume("harness poll ticker");
                }
            std::this_thread::yield();
        }
    }
    inline void poll_pause(bool os)
    {
        if (os || !pika::threads::detail::get_self_ptr())
        {
            std::this_thread::yield();
            return;
        }
        if (!g_ticker_started)
        {
            g_ticker_started = true;
            g_ticker = std::thread(ticker_main);
            g_ticker.detach();
        }
        for (auto& s : g_poll_slots)
            if (s.state == 0)
            {
                s.state = 3;    // claimed (no schedule point between the test and this store)
                s.ctx = pika::execution::this_thread::detail::agent();
                s.state = 1;
                s.ctx.suspend("harness poll pause");
                s.state = 0;
                return;
            }
        pika::this_thread::yield();    // no free slot: plain yield
    }
    inline void poll_stop() { g_ticker_stop = true; }

    // a pika task "sleeps" by yielding until virtual time has passed (pika::this_thread::sleep_for is
    // timed suspension, which this version of pika does not support: at_timer throws)
    inline void task_sleep_us(int64_t us)
    {
        auto until = std::chrono::steady_clock::now() + std::chrono::microseconds(us);
        do {
            pika::this_thread::yield();
        } while (std::chrono::steady_clock::now() < until);
    }

    // Main-thread polling pause (virtual time; lets everybody else run). The parties execute their
    // programs in the *fault phase* (drawn strategy, faults on). Only when the main thread has been
    // polling for `fault_steps` schedule points without the workload finishing does the run enter the
    // quiescence phase (faults off, fair round-robin) with its liveness budget.
    inline void main_pause(uint64_t budget = 2000000, uint64_t fault_steps = 400000)
    {
        static uint64_t first = 0;
        static bool quiesced = false;
        uint64_t now = sim_seq();
        if (!first) first = now;
        if (!quiesced && now - first > fault_steps)
        {
            quiesced = true;
            sim_quiesce(budget);
        }
        std::this_thread::sleep_for(std::chrono::microseconds(2));
    }

}    // namespace vh
