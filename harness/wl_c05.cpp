// C05 — runtime life cycle: wait/stop drain all work, restart works.
#include "parties.hpp"

#include <pika/runtime/runtime_fwd.hpp>
#include <pika/runtime/get_os_thread_count.hpp>

#include <memory>

using namespace vh;
namespace ex = pika::execution::experimental;
namespace tt = pika::this_thread::experimental;

namespace {

    std::vector<std::string> const c05_focus = {"thread_manager::wait", "global_activity_count", "stop_locked",
        "suspend_internal", "resume_internal", "scheduler_base::suspend", "scheduler_base::resume", "scheduling_loop",
        "runtime::wait", "runtime::stop", "wait_finalize", "suspend_processing_unit", "resume_processing_unit"};
    struct FocusInit
    {
        FocusInit()
        {
            for (auto& s : c05_focus) focus_patterns().push_back(s);
        }
    } focus_init;

    enum
    {
        OP_START = 1,        // a = incarnation configuration stream
        OP_SUBMIT_MAIN = 2,  // a = n tasks, b = children per task, c = yields
        OP_SUBMIT_TASK = 3,
        OP_SUBMIT_OS = 4,    // d = 1: races with the next wait/suspend
        OP_WAIT = 5,
        OP_SUSPEND = 6,
        OP_RESUME = 7,
        OP_FINALIZE = 8,     // a = 1: from a task
        OP_STOP = 9,
        OP_MISUSE = 10,      // a = which
    };
    enum
    {
        DOWN = 0,
        RUNNING = 1,
        SUSPENDED = 2
    };

    struct Tok
    {
        int incarnation;
        int parent;
        bool submit_returned = false;
        bool finished = false;
        std::vector<int> children;
        uint64_t finish_seq = 0;
    };
    std::vector<Tok> toks;
    int g_state = DOWN;
    bool g_finalized = false;
    int g_incarnation = 0;
    int g_expected_workers = 0;
    int g_entry_value = 0;
    bool g_entry_ran = false;
    bool g_suspended_window = false;    // between suspend() return and resume() invocation
    int g_body_events = 0;
    std::vector<std::thread> g_racers;

    int new_tok(int parent)
    {
        toks.reserve(8192);
        toks.push_back(Tok{g_incarnation, parent});
        return (int) toks.size() - 1;
    }

    void submit_one(int tok, int nchild, int yields);

    void task_body(int tok, int nchild, int yields)
    {
        g_body_events++;
        VH_CHECK(!g_suspended_window, "C05.ran_while_suspended", "task %d executes while the runtime is suspended", tok);
        VH_CHECK(g_state != DOWN, "C05.ran_while_down", "task %d executes while the runtime is down", tok);
        VH_CHECK(toks[(size_t) tok].incarnation == g_incarnation, "C05.wrong_incarnation",
            "task %d of incarnation %d runs in incarnation %d", tok, toks[(size_t) tok].incarnation, g_incarnation);
        VH_CHECK((int) pika::get_num_worker_threads() == g_expected_workers, "C05.config",
            "incarnation %d runs with %d workers, configured %d", g_incarnation, (int) pika::get_num_worker_threads(),
            g_expected_workers);
        VH_CHECK((int) pika::get_worker_thread_num() < g_expected_workers, "C05.config", "worker number out of range");
        for (int c = 0; c < nchild; c++)
        {
            int ct = new_tok(tok);
            toks[(size_t) tok].children.push_back(ct);
            submit_one(ct, 0, yields);
        }
        for (int y = 0; y < yields; y++)
        {
            pika::this_thread::yield();
            VH_CHECK(!g_suspended_window, "C05.ran_while_suspended", "task %d resumed while the runtime is suspended", tok);
        }
        toks[(size_t) tok].finished = true;
        toks[(size_t) tok].finish_seq = sim_seq();
        ev(2, tok);
    }

    void submit_one(int tok, int nchild, int yields)
    {
        ex::execute(ex::thread_pool_scheduler{}, [tok, nchild, yields] { task_body(tok, nchild, yields); });
        toks[(size_t) tok].submit_returned = true;
    }

    void submit_batch(int n, int nchild, int yields)
    {
        for (int i = 0; i < n; i++) submit_one(new_tok(-1), nchild, yields);
    }

    void check_finished_closure(std::vector<int> const& must, char const* what)
    {
        std::vector<int> stack = must;
        while (!stack.empty())
        {
            int t = stack.back();
            stack.pop_back();
            VH_CHECK(toks[(size_t) t].finished, "C05.wait_early",
                "%s returned although task %d (submitted before the call, or spawned by such a task) has not finished", what, t);
            for (int c : toks[(size_t) t].children) stack.push_back(c);
        }
    }

    void join_racers()
    {
        for (auto& t : g_racers) t.join();
        g_racers.clear();
    }

    void expect_invalid_status(char const* what, auto&& f)
    {
        bool threw = false;
        try
        {
            f();
        }
        catch (pika::exception const& e)
        {
            threw = true;
            VH_CHECK(e.get_error() == pika::error::invalid_status, "C05.misuse", "%s reported error %d", what,
                (int) e.get_error());
        }
        VH_CHECK(threw, "C05.misuse", "%s from a pika task was not refused", what);
    }

    void do_start(RunCtx& ctx, int stream)
    {
        // each incarnation has its own drawn configuration
        static int started = 0;
        started++;
        Rng r(mix_seed(ctx.seed, 1100 + (uint64_t) started * 7 + (uint64_t) stream));
        ctx.params.set("rt.workers", r.range(1, ctx.thorough ? 8 : 5));
        ctx.params.set("rt.policy", (int64_t) r.below(8));
        g_expected_workers = (int) ctx.params.get("rt.workers");
        g_entry_value = (int) r.range(0, 100);
        bool with_entry = r.chance(1, 2);
        g_entry_ran = !with_entry;
        g_incarnation++;
        g_finalized = false;
        int v = g_entry_value;
        if (with_entry)
            pk::start(ctx, [v] {
                g_entry_ran = true;
                return v;
            });
        else
        {
            g_entry_value = 0;
            pk::start(ctx);
        }
        g_state = RUNNING;
        probe("start");
    }

    void do_finalize(bool from_task)
    {
        if (g_finalized) return;
        if (from_task)
            tt::sync_wait(ex::schedule(ex::thread_pool_scheduler{}) | ex::then([] { pika::finalize(); }));
        else
            pika::finalize();
        g_finalized = true;
    }

    // late: stop() is entered before finalize(); a plain OS thread submits more work (that spawns children
    // and yields) and only then calls finalize(). stop() must still return only after all of it has run.
    void do_stop(bool late = false, int n = 0, int nchild = 0, int yields = 0)
    {
        join_racers();
        if (g_state == SUSPENDED)
        {
            g_suspended_window = false;
            pika::resume();
            g_state = RUNNING;
        }
        std::thread finalizer;
        if (late && !g_finalized)
        {
            finalizer = std::thread([n, nchild, yields] {
                for (int y = 0; y < 1 + yields; y++) std::this_thread::yield();
                for (int i = 0; i < n; i++)
                {
                    submit_one(new_tok(-1), nchild, yields);
                    std::this_thread::yield();
                }
                pika::finalize();
            });
            g_finalized = true;
            probe("stop_entered_before_finalize");
        }
        else
            do_finalize(false);
        int inc = g_incarnation;
        int rv = pika::stop();
        if (finalizer.joinable()) finalizer.join();
        g_state = DOWN;
        int events = g_body_events;
        VH_CHECK(g_entry_ran, "C05.entry_not_run", "stop() returned but the entry function never ran");
        VH_CHECK(rv == g_entry_value, "C05.stop_value", "stop() returned %d, the entry function returned %d", rv, g_entry_value);
        for (size_t t = 0; t < toks.size(); t++)
            if (toks[t].incarnation == inc)
                VH_CHECK(toks[t].finished || !toks[t].submit_returned, "C05.stop_early",
                    "stop() returned although task %zu of this incarnation has not finished", t);
        main_pause();
        VH_CHECK(g_body_events == events, "C05.after_stop", "task bodies ran after stop() returned");
        probe("stop");
    }

    void run_life(RunCtx& ctx)
    {
        Rng r(mix_seed(ctx.seed, 110));
        pk::draw_runtime(ctx, ctx.thorough ? 8 : 5);
        if (!ctx.program_from_replay)
        {
            Program p;
            int nops = (int) r.range(4, ctx.thorough ? 30 : 18);
            for (int i = 0; i < nops; i++)
            {
                Op op;
                uint64_t x = r.below(100);
                op.v[0] = x < 10 ? OP_START :
                    x < 28      ? OP_SUBMIT_MAIN :
                    x < 40      ? OP_SUBMIT_TASK :
                    x < 54      ? OP_SUBMIT_OS :
                    x < 68      ? OP_WAIT :
                    x < 76      ? OP_SUSPEND :
                    x < 84      ? OP_RESUME :
                    x < 88      ? OP_FINALIZE :
                    x < 95      ? OP_STOP :
                                  OP_MISUSE;
                op.v[1] = op.v[0] == OP_START ? (int64_t) r.below(4) : r.range(1, 6);
                op.v[2] = r.range(0, 2);
                op.v[3] = r.range(0, 3);
                op.v[4] = r.chance(1, 2) ? 1 : 0;
                p.push_back(op);
            }
            ctx.program = p;
        }
        sim_config sc = draw_sim_config(ctx, 120000, FAULT_STALL | FAULT_TRYFAIL | FAULT_CLOCKJUMP | FAULT_SPURIOUS);
        begin_sim(ctx, sc);
        focus_select(ctx, c05_focus, 3);
        g_dump_hook = +[]() -> std::string {
            int unfinished = 0;
            for (auto& t : toks)
                if (t.submit_returned && !t.finished) unfinished++;
            return pk::dump() +
                sfmt(" | life model: state=%d incarnation=%d finalized=%d unfinished_tasks=%d", g_state, g_incarnation,
                    (int) g_finalized, unfinished);
        };
        for (auto const& op : ctx.program)
        {
            int a = (int) op.v[1], b = (int) op.v[2], c = (int) op.v[3];
            if (a < 0) a = 0;
            if (a > 8) a = 8;
            // any operation that needs a runtime starts the next incarnation when none is up
            if (g_state == DOWN && g_incarnation < 3 && op.v[0] != OP_START && op.v[0] != OP_STOP)
                do_start(ctx, (int) (op.v[0] + op.v[1]));
            switch (op.v[0])
            {
            case OP_START:
                if (g_state == DOWN && g_incarnation < 3) do_start(ctx, a);
                break;
            case OP_SUBMIT_MAIN:
                if (g_state == RUNNING && !g_finalized) submit_batch(a, b, c);
                break;
            case OP_SUBMIT_TASK:
                if (g_state == RUNNING && !g_finalized)
                {
                    int root = new_tok(-1);
                    ex::execute(ex::thread_pool_scheduler{}, [root, a, b, c] {
                        for (int i = 0; i < a; i++)
                        {
                            int ct = new_tok(root);
                            toks[(size_t) root].children.push_back(ct);
                            submit_one(ct, b, c);
                        }
                        toks[(size_t) root].finished = true;
                    });
                    toks[(size_t) root].submit_returned = true;
                }
                break;
            case OP_SUBMIT_OS:
                if (g_state != DOWN && !g_finalized)
                {
                    bool racing = op.v[4] == 1;
                    std::thread th([a, b, c] {
                        for (int i = 0; i < a; i++)
                        {
                            submit_one(new_tok(-1), b, c);
                            std::this_thread::yield();
                        }
                    });
                    if (racing)
                    {
                        g_racers.push_back(std::move(th));
                        probe("racing_submitter");
                    }
                    else
                        th.join();
                }
                break;
            case OP_WAIT:
                if (g_state == RUNNING)
                {
                    std::vector<int> must;
                    for (size_t t = 0; t < toks.size(); t++)
                        if (toks[t].incarnation == g_incarnation && toks[t].submit_returned && toks[t].parent == -1)
                            must.push_back((int) t);
                    pika::wait();
                    check_finished_closure(must, "pika::wait()");
                    probe("wait");
                }
                break;
            case OP_SUSPEND:
                if (g_state == RUNNING && !g_finalized)
                {
                    pika::suspend();
                    g_suspended_window = true;
                    g_state = SUSPENDED;
                    // a second suspend is a no-op
                    pika::suspend();
                    probe("suspend");
                }
                break;
            case OP_RESUME:
                if (g_state == SUSPENDED)
                {
                    g_suspended_window = false;
                    pika::resume();
                    g_state = RUNNING;
                    pika::resume();    // second resume is a no-op
                    probe("resume");
                }
                break;
            case OP_FINALIZE:
                if (g_state == RUNNING) do_finalize(a & 1);
                break;
            case OP_STOP:
                if (g_state != DOWN) do_stop(op.v[4] == 1, a, b, c);
                break;
            case OP_MISUSE:
                if (g_state == RUNNING && !g_finalized)
                {
                    int which = a % 3;
                    tt::sync_wait(ex::schedule(ex::thread_pool_scheduler{}) | ex::then([which] {
                        if (which == 0)
                            expect_invalid_status("pika::stop()", [] { pika::stop(); });
                        else if (which == 1)
                            expect_invalid_status("pika::suspend()", [] { pika::suspend(); });
                        else
                            expect_invalid_status("pika::resume()", [] { pika::resume(); });
                    }));
                    probe("misuse_refused");
                }
                break;
            default:
                break;
            }
        }
        sim_quiesce(3000000);
        if (g_state != DOWN) do_stop();
        join_racers();
        focus_report();
    }

    Registrar r1(Workload{"C05", "life", 100, run_life, pk::preload});

}    // namespace
