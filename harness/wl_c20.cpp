// C20 — MPI requests complete their sender exactly once, after the transfer. (simulated MPI transport)
#include "opholder.hpp"
#include "parties.hpp"

#include <pika/async_mpi/mpi_polling.hpp>
#include <pika/async_mpi/transform_mpi.hpp>
#include <pika/mpi_base/mpi.hpp>
#include <pika/runtime/thread_pool_helpers.hpp>

#include <memory>

using namespace vh;
namespace ex = pika::execution::experimental;
namespace tt = pika::this_thread::experimental;
namespace mpi = pika::mpi::experimental;

namespace {

    std::vector<std::string> const c20_focus = {"mpi_polling", "poll", "add_request_callback", "transform_mpi_detail",
        "resume_request_callback", "invoke_callback", "scheduling_loop", "set_value_request_callback"};
    struct FocusInit
    {
        FocusInit()
        {
            for (auto& s : c20_focus) focus_patterns().push_back(s);
        }
    } focus_init;

    struct Msg
    {
        int kind = 0;        // 0 recv+send pair, 1 ibcast
        int bytes = 1;
        int submitter = 0;
        int pre_yields = 0;
        std::vector<unsigned char> sendbuf, recvbuf;
        void* recv_handle = nullptr;
        void* send_handle = nullptr;
        int recv_signals = 0, send_signals = 0;
        bool recv_posted = false;
    };
    std::vector<std::unique_ptr<Msg>> M;
    int g_expected_signals = 0, g_signals = 0;
    uint64_t g_last_signal_seq = 0;

    unsigned char pattern(int i, int k) { return (unsigned char) (i * 31 + k * 7 + 3); }

    void on_recv_done(int i)
    {
        Msg& m = *M[(size_t) i];
        m.recv_signals++;
        g_signals++;
        g_last_signal_seq = sim_seq();
        VH_CHECK(m.recv_signals == 1, "C20.signalled_twice", "receive %d completed its sender %d times", i, m.recv_signals);
        // at the continuation's first instruction the transport has completed (and reported) the request
        int st = sim_mpi_request_state(m.recv_handle);
        VH_CHECK(st == 2, "C20.early_completion",
            "the continuation of receive %d runs while the transport says the request is %s", i,
            st == 0 ? "still in flight" : st == 1 ? "complete but not yet tested" : "unknown");
        for (int k = 0; k < m.bytes; k++)
            VH_CHECK(m.recvbuf[(size_t) k] == pattern(i, k), "C20.data_not_visible",
                "receive %d: byte %d of the buffer is %u, expected %u (continuation ran before the data arrived)", i, k,
                m.recvbuf[(size_t) k], pattern(i, k));
    }
    void on_send_done(int i)
    {
        Msg& m = *M[(size_t) i];
        m.send_signals++;
        g_signals++;
        g_last_signal_seq = sim_seq();
        VH_CHECK(m.send_signals == 1, "C20.signalled_twice", "request %d completed its sender %d times", i, m.send_signals);
        int st = sim_mpi_request_state(m.send_handle);
        VH_CHECK(st == 2, "C20.early_completion", "the continuation of request %d runs before the transport completed it (state %d)", i, st);
    }

    void post(int i)
    {
        Msg& m = *M[(size_t) i];
        for (int y = 0; y < m.pre_yields; y++) pika::this_thread::yield();
        if (m.kind == 1)
        {
            g_expected_signals++;
            ex::start_detached(mpi::transform_mpi(ex::just(m.sendbuf.data(), m.bytes, MPI_BYTE, 0, MPI_COMM_WORLD),
                                   [i](void* b, int n, MPI_Datatype t, int root, MPI_Comm c, MPI_Request* req) {
                                       int rc = MPI_Ibcast(b, n, t, root, c, req);
                                       M[(size_t) i]->send_handle = (void*) *req;
                                       return rc;
                                   }) |
                ex::then([i]() { on_send_done(i); }));
            return;
        }
        g_expected_signals += 2;
        // the (eager) send first, then the matching self-addressed receive: in the blocking completion
        // modes (yield_while, suspend_resume) starting the operation waits for the request
        ex::start_detached(mpi::transform_mpi(ex::just(m.sendbuf.data(), m.bytes, MPI_BYTE, 0, i, MPI_COMM_WORLD),
                               [i](void const* b, int n, MPI_Datatype t, int dst, int tag, MPI_Comm c, MPI_Request* req) {
                                   int rc = MPI_Isend(b, n, t, dst, tag, c, req);
                                   M[(size_t) i]->send_handle = (void*) *req;
                                   return rc;
                               }) |
            ex::then([i]() { on_send_done(i); }));
        ex::start_detached(mpi::transform_mpi(ex::just(m.recvbuf.data(), m.bytes, MPI_BYTE, 0, i, MPI_COMM_WORLD),
                               [i](void* b, int n, MPI_Datatype t, int src, int tag, MPI_Comm c, MPI_Request* req) {
                                   int rc = MPI_Irecv(b, n, t, src, tag, c, req);
                                   M[(size_t) i]->recv_handle = (void*) *req;
                                   return rc;
                               }) |
            ex::then([i]() { on_recv_done(i); }));
    }

    void run_mpi(RunCtx& ctx)
    {
        Rng r(mix_seed(ctx.seed, 2000));
        ctx.params.set("rt.min_thread_count", 64 * 3 + 16);
        pk::draw_runtime(ctx, 4);
        // completion mode: method (0,8,16,24) + inline request + inline completion + high priority
        int64_t mode = ctx.params.set("c20.completion_mode", (int64_t) r.below(32));
        // The yield_while handler (modes 0-7) makes every waiting task a yield-poller. Where no idle worker can take over
        // pending work (one worker, stealing switched off or limited by the drawn queue parameters) such pollers starve
        // a task that another thread queued on their worker for good - C01's known finding, which would show here as a
        // liveness failure of MPI completion. Those configurations use the suspend_resume handler with the same flags.
        auto no_yield_pollers_without_stealing = [&ctx](int64_t m) { return m < 8 && !pk::steals(ctx) ? m + 8 : m; };
        mode = ctx.params.set("c20.completion_mode", no_yield_pollers_without_stealing(mode));
        int64_t pool = ctx.params.set("c20.mpi_pool", r.chance(1, 3) ? 1 : 0);
        int nbatches = (int) ctx.params.set("c20.batches", r.range(1, 3));
        // one run in three keeps many requests outstanding at once (completions are held back until a
        // whole batch is posted): pika tests its request vector in chunks of 32
        bool const many = ctx.params.set("c20.hold", r.chance(1, 3) ? 1 : 0) != 0;
        // (not with the yield_while handler: its waiting tasks poll MPI_Test themselves - the request vector
        // is not used - and while nothing may complete they starve the tasks that still have to post,
        // see C01's known finding)
        bool const hold_allowed = many;
        // one run in 25 is a flood: a single task on a single worker (nobody polls meanwhile) starts more than a
        // thousand sends in a row, more than the request queue between submitters and pollers holds without growing
        int const flood = (int) ctx.params.set("c20.flood", !many && r.chance(1, 25) ? r.range(1050, 1300) : 0);
        if (flood)
        {
            ctx.params.set("rt.workers", 1);
            pool = ctx.params.set("c20.mpi_pool", 0);
            nbatches = (int) ctx.params.set("c20.batches", 1);
            if (mode < 16) mode = ctx.params.set("c20.completion_mode", 16 + (mode & 7) + (r.chance(1, 2) ? 8 : 0));
            Program p;
            for (int i = 0; i < flood; i++)
            {
                Op op;
                op.v[0] = 1;
                op.v[1] = 1 + (i & 7);
                p.push_back(op);
            }
            ctx.program = p;
        }
        else if (!ctx.program_from_replay)
        {
            Program p;
            int n = many ? (int) r.range(12, ctx.thorough ? 64 : 40) : (int) r.range(1, ctx.thorough ? 24 : 12);
            for (int i = 0; i < n; i++)
            {
                Op op;
                op.v[0] = r.chance(1, 6) ? 1 : 0;
                op.v[1] = (int64_t) r.logu(1, many ? 256 : 4096);
                op.v[2] = (int64_t) r.below(4);
                op.v[3] = r.range(0, 3);
                op.v[4] = (int64_t) r.below((uint64_t) nbatches);
                p.push_back(op);
            }
            ctx.program = p;
        }
        sim_config sc = draw_sim_config(ctx, 150000, FAULT_STALL | FAULT_TRYFAIL);
        begin_sim(ctx, sc);
        focus_select(ctx, c20_focus, 3);
        sim_mpi_configure(mix_seed(ctx.seed, 2001), (uint64_t) ctx.params.set("c20.min_delay_ns", (int64_t) r.logu(100, 20000)),
            (uint64_t) ctx.params.set("c20.max_delay_ns", (int64_t) r.logu(20000, 2000000)),
            (uint64_t) ctx.params.set("c20.burst_ns", r.chance(1, 3) ? (int64_t) r.logu(10000, 500000) : 0));
        g_dump_hook = +[]() -> std::string {
            sim_mpi_stats st;
            sim_mpi_get_stats(&st);
            std::string per;
            for (size_t i = 0; i < M.size() && i < 80; i++)
                per += sfmt(" %zu:%s%d%d", i, M[i]->send_handle ? (M[i]->recv_handle ? "SR" : "S-") : "--", M[i]->send_signals, M[i]->recv_signals);
            return pk::dump() +
                sfmt(" | mpi: posted=%llu completed=%llu inflight=%llu signals %d of %d, pika work count %zu | messages (posted, send/recv signals):%s",
                    (unsigned long long) st.posted, (unsigned long long) st.completed, (unsigned long long) st.inflight, g_signals,
                    g_expected_signals, mpi::get_work_count(), per.c_str());
        };
        int provided = 0;
        MPI_Init_thread(nullptr, nullptr, MPI_THREAD_MULTIPLE, &provided);
        // the completion mode and the polling pool are configuration entries of the runtime
        ctx.params.set("rt.mpi_completion_mode", mode);
        ctx.params.set("rt.mpi_enable_pool", pool);
        if (pool && ctx.params.get("rt.workers") < 2) ctx.params.set("rt.workers", 2);
        // pika creates the dedicated polling pool only if it sees more than one rank
        sim_mpi_set_world_size(pool ? 2 : 1);
        pk::start(ctx);
        bool const pool_created = pika::resource::get_num_thread_pools() > 1;
        VH_CHECK(pool_created == (pool != 0), "C20.harness", "polling pool requested %d, created %d", (int) pool, (int) pool_created);
        // requests tested per MPI call: 1 = MPI_Testany, > 1 = MPI_Testsome in chunks
        int64_t polling_size = ctx.params.set("c20.polling_size", r.chance(1, 4) ? 1 : r.chance(1, 2) ? 8 : r.range(2, 64));
        mpi::detail::set_max_polling_size((std::size_t) polling_size);
        int n = (int) ctx.program.size();
        for (int i = 0; i < n; i++)
        {
            Op const& op = ctx.program[(size_t) i];
            auto m = std::make_unique<Msg>();
            m->kind = (int) (op.v[0] & 1);
            m->bytes = (int) (op.v[1] < 1 ? 1 : op.v[1] > 4096 ? 4096 : op.v[1]);
            m->submitter = (int) (op.v[2] & 3);
            m->pre_yields = (int) (op.v[3] & 3);
            m->sendbuf.resize((size_t) m->bytes);
            m->recvbuf.assign((size_t) m->bytes, 0xEE);    // poison: visible if a continuation runs early
            for (int k = 0; k < m->bytes; k++) m->sendbuf[(size_t) k] = pattern(i, k);
            M.push_back(std::move(m));
        }
        for (int b = 0; b < nbatches; b++)
        {
            // every batch is its own polling session; in half of the runs a later session uses another completion
            // mode than the one before (set between the sessions, while nothing is in flight)
            if (b > 0)
            {
                int64_t m2 = ctx.params.set(sfmt("c20.mode_batch%d", b),
                    no_yield_pollers_without_stealing(r.chance(1, 2) ? mode : (int64_t) r.below(32)));
                if (m2 != mode)
                {
                    mpi::detail::set_completion_mode((std::size_t) m2);
                    mode = m2;
                    probe("completion_mode_changed_between_sessions");
                }
            }
            bool const hold = hold_allowed && mode >= 8;    // (not with the yield_while handler, see above)
            // polling is enabled and disabled in a balanced way around every batch
            mpi::enable_polling polling_scope;
            int posted_before = g_expected_signals;
            uint64_t to_post = 0;
            {
                sim_mpi_stats s0;
                sim_mpi_get_stats(&s0);
                to_post = s0.posted;
            }
            if (hold) sim_mpi_hold(1);
            for (int i = 0; i < n; i++)
            {
                if (((ctx.program[(size_t) i].v[4] % nbatches) + nbatches) % nbatches != b) continue;
                // in the blocking completion modes (yield_while 0-7, suspend_resume 8-15) starting an operation
                // waits for its request: the posting task does not get to the second request of its pair
                to_post += (M[(size_t) i]->kind == 1 || mode < 16) ? 1 : 2;
                if (!flood) ex::execute(ex::thread_pool_scheduler{}, [i] { post(i); });
            }
            if (flood)
            {
                ex::execute(ex::thread_pool_scheduler{}, [n] {
                    for (int i = 0; i < n; i++) post(i);
                });
                probe("flood_of_requests_from_one_task");
            }
            if (hold)
            {
                // every request of the batch is outstanding at once before the first one completes
                for (;;)
                {
                    sim_mpi_stats s1;
                    sim_mpi_get_stats(&s1);
                    if (s1.posted >= to_post) break;
                    main_pause(3000000);
                }
                probe("all_requests_outstanding_at_once", to_post);
                sim_mpi_hold(0);
            }
            // pika::wait() must not return while requests are in flight; it is called while the
            // batch is still being posted and completed (fault phase)
            pika::wait();
            sim_mpi_stats st;
            sim_mpi_get_stats(&st);
            VH_CHECK(st.inflight == 0, "C20.wait_returned_early",
                "pika::wait() returned while %llu MPI requests are still in flight (batch %d)", (unsigned long long) st.inflight, b);
            VH_CHECK(g_signals == g_expected_signals, "C20.wait_returned_early",
                "pika::wait() returned after %d of %d completion signals (batch %d)", g_signals, g_expected_signals, b);
            VH_CHECK(mpi::get_work_count() == 0, "C20.work_count", "get_work_count() is %zu after wait()", mpi::get_work_count());
            (void) posted_before;
            probe("batch");
        }
        sim_mpi_stats st;
        sim_mpi_get_stats(&st);
        VH_CHECK(st.test_on_freed == 0, "C20.test_on_freed_request", "%llu MPI_Test calls on requests that had already completed",
            (unsigned long long) st.test_on_freed);
        VH_CHECK(st.bad_handle == 0, "C20.bad_handle", "%llu MPI calls with a dangling request handle", (unsigned long long) st.bad_handle);
        for (int i = 0; i < n; i++)
        {
            Msg& m = *M[(size_t) i];
            VH_CHECK(m.send_signals == 1 && (m.kind == 1 || m.recv_signals == 1), "C20.signal_count",
                "message %d: send signalled %d times, receive %d times", i, m.send_signals, m.recv_signals);
        }
        probe(sfmt("mode%lld", (long long) mode).c_str());
        probe(pool_created ? "mpi_pool" : "no_mpi_pool");
        probe("requests", st.posted);
        focus_report();
        pk::stop();
    }

    Registrar r1(Workload{"C20", "mpi", 100, run_mpi, pk::preload});

}    // namespace
