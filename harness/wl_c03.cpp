// C03 — sender adaptors deliver exactly one, correct completion signal.
#include "opholder.hpp"
#include "parties.hpp"

#include <pika/execution.hpp>
#include <pika/execution_base/any_sender.hpp>

#include <exception>
#include <functional>
#include <memory>
#include <optional>
#include <thread>
#include <tuple>
#include <vector>

using namespace vh;
namespace ex = pika::execution::experimental;
namespace tt = pika::this_thread::experimental;

namespace {

    std::vector<std::string> const c03_focus = {"split_detail", "split_tuple_detail", "ensure_started_detail",
        "when_all_impl", "when_all_vector", "let_value_detail", "let_error_detail", "then_detail", "schedule_from",
        "start_detached_detail", "sync_wait_detail", "any_sender", "intrusive_ptr"};
    struct FocusInit
    {
        FocusInit()
        {
            for (auto& s : c03_focus) focus_patterns().push_back(s);
        }
    } focus_init;

    // ---------------------------------------------------------------------------------------------
    // payload with a ledger
    struct Tok
    {
        static int live, constructed, destroyed, bad_access;
        int64_t v;
        uint32_t magic;
        // the ledger is harness bookkeeping: every member is an atomic section
        explicit Tok(int64_t x = 0)
        {
            AtomicSection a;
            v = x;
            magic = 0xA11CE;
            live++;
            constructed++;
        }
        Tok(Tok const& o)
        {
            AtomicSection a;
            v = o.get();
            magic = 0xA11CE;
            live++;
            constructed++;
        }
        Tok(Tok&& o) noexcept
        {
            AtomicSection a;
            v = o.get();
            magic = 0xA11CE;
            live++;
            constructed++;
        }
        Tok& operator=(Tok const& o)
        {
            AtomicSection a;
            v = o.get();
            return *this;
        }
        Tok& operator=(Tok&& o) noexcept
        {
            AtomicSection a;
            v = o.get();
            return *this;
        }
        ~Tok()
        {
            AtomicSection a;
            if (magic != 0xA11CE) bad_access++;
            magic = 0xDEAD;
            v = -999999;
            live--;
            destroyed++;
        }
        int64_t get() const
        {
            AtomicSection a;
            if (magic != 0xA11CE) bad_access++;
            return v;
        }
    };
    int Tok::live = 0, Tok::constructed = 0, Tok::destroyed = 0, Tok::bad_access = 0;

    // error payload with a ledger: an exception object that is looked at after its destruction (a dangling
    // exception_ptr handed downstream) is recognised by its magic
    struct TestError : std::exception
    {
        static int live, bad_access;
        int id;
        uint32_t magic;
        explicit TestError(int i)
          : id(i)
          , magic(0xE77077)
        {
            AtomicSection a;
            live++;
        }
        TestError(TestError const& o)
          : std::exception(o)
          , id(o.id)
          , magic(0xE77077)
        {
            AtomicSection a;
            if (o.magic != 0xE77077) bad_access++;
            live++;
        }
        ~TestError() override
        {
            AtomicSection a;
            if (magic != 0xE77077) bad_access++;
            magic = 0xDEAD;
            id = -777;
            live--;
        }
        bool alive() const { return magic == 0xE77077; }
        char const* what() const noexcept override { return "C03 test error"; }
    };
    int TestError::live = 0, TestError::bad_access = 0;

    enum
    {
        CH_VALUE = 0,
        CH_ERROR = 1,
        CH_STOPPED = 2
    };
    enum
    {
        T_INLINE = 0,
        T_LATER = 1    // completed later by the completer thread
    };

    struct Leaf
    {
        int channel = CH_VALUE;
        int timing = T_INLINE;
        int64_t value = 0;
        int err_id = 0;
        int starts = 0;
        int completions = 0;
        std::vector<std::function<void()>> pending;
    };
    Leaf g_leaf[4];
    bool g_throw[4];    // callable k throws TestError(100+k)

    // leaf sender: sends one Tok (or a tuple of two) / an error / stopped
    template <bool Tuple>
    struct SimSender
    {
        PIKA_STDEXEC_SENDER_CONCEPT
        Leaf* leaf;
        using value_t = std::conditional_t<Tuple, std::tuple<Tok, Tok>, Tok>;
        template <template <typename...> class Tup, template <typename...> class Var>
        using value_types = Var<Tup<value_t>>;
        template <template <typename...> class Var>
        using error_types = Var<std::exception_ptr>;
        static constexpr bool sends_done = true;
        using completion_signatures = ex::completion_signatures<ex::set_value_t(value_t),
            ex::set_error_t(std::exception_ptr), ex::set_stopped_t()>;

        template <typename R>
        struct Op
        {
            Leaf* leaf;
            std::decay_t<R> r;
            uint32_t canary = 0xC0FFEE;
            Op(Leaf* l, R&& rr)
              : leaf(l)
              , r(std::forward<R>(rr))
            {
            }
            Op(Op&&) = delete;
            ~Op() { canary = 0xDEAD; }
            void complete() noexcept
            {
                {
                    AtomicSection a;
                    VH_CHECK(canary == 0xC0FFEE, "C03.harness", "leaf operation state used after destruction");
                    leaf->completions++;
                }
                switch (leaf->channel)
                {
                case CH_VALUE:
                    if constexpr (Tuple)
                        ex::set_value(std::move(r), std::tuple<Tok, Tok>(Tok(leaf->value), Tok(leaf->value + 1)));
                    else
                        ex::set_value(std::move(r), Tok(leaf->value));
                    break;
                case CH_ERROR:
                    ex::set_error(std::move(r), std::make_exception_ptr(TestError(leaf->err_id)));
                    break;
                default:
                    ex::set_stopped(std::move(r));
                    break;
                }
            }
            void start() & noexcept
            {
                bool inl;
                {
                    AtomicSection a;
                    leaf->starts++;
                    inl = leaf->timing == T_INLINE;
                    if (!inl) leaf->pending.push_back([this] { complete(); });
                }
                if (inl) complete();
            }
        };
        template <typename R>
        Op<R> connect(R&& r) const
        {
            return Op<R>(leaf, std::forward<R>(r));
        }
    };

    // ---------------------------------------------------------------------------------------------
    struct Outcome
    {
        int nvalue = 0, nerror = 0, nstopped = 0;
        int64_t value = 0;
        int err_id = -1;
        bool op_destroyed = false;
        int signals() const { return nvalue + nerror + nstopped; }
    };
    struct Expected
    {
        int channel = CH_VALUE;
        int64_t value = 0;
        std::vector<int> err_ids;    // any of these is accepted
    };

    int err_id_of(std::exception_ptr ep)
    {
        try
        {
            std::rethrow_exception(ep);
        }
        catch (TestError const& e)
        {
            AtomicSection a;
            if (!e.alive()) TestError::bad_access++;
            return e.alive() ? e.id : -3;
        }
        catch (...)
        {
            return -2;
        }
    }

    template <typename V>
    int64_t value_of(V const& v)
    {
        if constexpr (std::is_same_v<V, Tok>)
            return v.get();
        else
            return (int64_t) v;
    }

    struct Rcv
    {
        PIKA_STDEXEC_RECEIVER_CONCEPT
        Outcome* out;
        void check_alive() const
        {
            VH_CHECK(!out->op_destroyed, "C03.signal_after_destruction",
                "receiver signalled after its operation state was destroyed");
        }
        template <typename... Ts>
        void set_value(Ts&&... ts) && noexcept
        {
            AtomicSection a;
            check_alive();
            out->nvalue++;
            int64_t sum = 0;
            ((sum += value_of(ts)), ...);
            out->value = sum;
            VH_CHECK(out->signals() == 1, "C03.signalled_twice", "receiver got %d completion signals", out->signals());
        }
        void set_error(std::exception_ptr ep) && noexcept
        {
            AtomicSection a;
            check_alive();
            out->nerror++;
            out->err_id = err_id_of(ep);
            VH_CHECK(out->err_id != -3, "C03.error_use_after_destruction",
                "the exception delivered to the receiver had already been destroyed (dangling exception_ptr)");
            VH_CHECK(out->signals() == 1, "C03.signalled_twice", "receiver got %d completion signals", out->signals());
        }
        void set_stopped() && noexcept
        {
            AtomicSection a;
            check_alive();
            out->nstopped++;
            VH_CHECK(out->signals() == 1, "C03.signalled_twice", "receiver got %d completion signals", out->signals());
        }
        constexpr ex::empty_env get_env() const& noexcept { return {}; }
    };

    struct Consumer
    {
        int thread = 0;
        int delay = 0;
        int how = 0;    // 0 connect/start, 1 sync_wait, 2 start_detached
        std::function<void(Consumer&)> go;
        Outcome out;
        Expected exp;
        std::shared_ptr<void> op;
        bool started = false;
        bool finished = false;    // sync_wait / detached bookkeeping
        char const* what = "";
    };
    std::vector<std::unique_ptr<Consumer>> consumers;

    // user callables
    Tok f_then(int k, Tok t)
    {
        bool th;
        {
            AtomicSection a;
            th = g_throw[k];
        }
        if (th) throw TestError(100 + k);
        return Tok(t.get() * 3 + k);
    }
    int64_t m_then(int k, int64_t x) { return x * 3 + k; }

    // the denotation of `leaf | then(f_k)`
    Expected leaf_exp(int l)
    {
        Expected e;
        e.channel = g_leaf[l].channel;
        e.value = g_leaf[l].value;
        if (e.channel == CH_ERROR) e.err_ids = {g_leaf[l].err_id};
        return e;
    }
    Expected then_exp(Expected e, int k)
    {
        if (e.channel != CH_VALUE) return e;
        if (g_throw[k])
        {
            e.channel = CH_ERROR;
            e.err_ids = {100 + k};
            return e;
        }
        e.value = m_then(k, e.value);
        return e;
    }
    // when_all: first error wins (any of the arms' errors is accepted), stopped if no error but a stop
    Expected all_exp(std::vector<Expected> const& arms)
    {
        Expected e;
        std::vector<int> errs;
        bool stopped = false;
        int64_t sum = 0;
        for (auto& a : arms)
        {
            if (a.channel == CH_ERROR)
                for (int id : a.err_ids) errs.push_back(id);
            else if (a.channel == CH_STOPPED)
                stopped = true;
            else
                sum += a.value;
        }
        if (!errs.empty())
        {
            e.channel = CH_ERROR;
            e.err_ids = errs;
            // pika's when_all reports whichever arm finished first with error *or* stopped
            if (stopped) e.err_ids.push_back(-100);
        }
        else if (stopped)
            e.channel = CH_STOPPED;
        else
            e.value = sum;
        return e;
    }

    template <typename S>
    void add_consumer(S&& sender, Expected exp, int how, int thread, int delay, char const* what)
    {
        auto c = std::make_unique<Consumer>();
        c->exp = exp;
        // sync_wait has no way to report "stopped" (it terminates): only use it where the pipeline
        // cannot complete with stopped
        if (how == 1)
        {
            if (exp.channel == CH_STOPPED) how = 0;
            for (int id : exp.err_ids)
                if (id == -100) how = 0;
            if (how == 1) probe("consumed_by_sync_wait");
        }
        // start_detached terminates on an error and swallows stopped: only where the pipeline denotes a value
        if (how == 2)
        {
            if (exp.channel != CH_VALUE) how = 0;
            if (how == 2) probe("consumed_by_start_detached");
        }
        c->how = how;
        c->thread = thread;
        c->delay = delay;
        c->what = what;
        auto sp = std::make_shared<std::optional<std::decay_t<S>>>(std::forward<S>(sender));
        c->go = [sp](Consumer& self) {
            {
                AtomicSection a;
                self.started = true;
            }
            if (self.how == 1)
            {
                try
                {
                    auto r = tt::sync_wait(std::move(**sp));
                    sp->reset();
                    AtomicSection a;
                    self.out.nvalue++;
                    self.out.value = value_of(r);
                }
                catch (TestError const& e)
                {
                    AtomicSection a;
                    self.out.nerror++;
                    self.out.err_id = e.id;
                }
                catch (...)
                {
                    // sync_wait reports stopped as an exception too
                    AtomicSection a;
                    self.out.nstopped++;
                }
                self.finished = true;
            }
            else if (self.how == 2)
            {
                Outcome* o = &self.out;
                ex::start_detached(std::move(**sp) | ex::then([o](auto&&... ts) {
                    AtomicSection a;
                    VH_CHECK(!o->op_destroyed, "C03.signal_after_destruction", "detached pipeline completed after the end of the run");
                    o->nvalue++;
                    int64_t sum = 0;
                    ((sum += value_of(ts)), ...);
                    o->value = sum;
                }));
                sp->reset();
            }
            else
            {
                auto op = make_op(std::move(**sp), Rcv{&self.out});
                sp->reset();
                {
                    AtomicSection a;
                    self.op = op;
                }
                op->start();
            }
        };
        consumers.push_back(std::move(c));
    }

    // ---------------------------------------------------------------------------------------------
    // shapes. Each builds the pipeline from the leaves and registers its consumers.
    using L = SimSender<false>;
    using LT = SimSender<true>;

    auto thenk(int k)
    {
        return ex::then([k](Tok t) { return f_then(k, std::move(t)); });
    }

    int g_how = 0, g_nthreads = 1;
    // consumption of the further consumers of a shared pipeline: kept operation state, or (half of the time) the
    // run's mode / start_detached, whose operation state is released from inside its own completion — then no
    // consumer keeps the shared state alive past the last completion signal
    int how_further(Rng& r) { return r.chance(1, 2) ? 0 : (r.chance(1, 2) ? 2 : g_how); }
    int thr(Rng& r) { return (int) r.below((uint64_t) g_nthreads); }

    void shape_then_chain(Rng& r)
    {
        add_consumer(L{&g_leaf[0]} | thenk(0) | thenk(1), then_exp(then_exp(leaf_exp(0), 0), 1), g_how, thr(r),
            (int) r.below(3), "then|then");
    }
    void shape_let_value(Rng& r)
    {
        bool inner_leaf = r.chance(1, 2);
        Expected e = leaf_exp(0);
        if (e.channel == CH_VALUE)
        {
            if (inner_leaf)
            {
                e = leaf_exp(1);
            }
            else
                e.value = e.value + 1000;
        }
        if (inner_leaf)
            add_consumer(L{&g_leaf[0]} | ex::let_value([](Tok&) { return L{&g_leaf[1]}; }) | thenk(2),
                then_exp(e, 2), g_how, thr(r), (int) r.below(3), "let_value(leaf)");
        else
            add_consumer(L{&g_leaf[0]} | ex::let_value([](Tok& t) { return ex::just(Tok(t.get() + 1000)); }) | thenk(2),
                then_exp(e, 2), g_how, thr(r), (int) r.below(3), "let_value(just)");
    }
    void shape_let_error(Rng& r)
    {
        Expected e = leaf_exp(0);
        if (e.channel == CH_ERROR)
        {
            e.channel = CH_VALUE;
            e.value = -e.err_ids[0];
            e.err_ids.clear();
        }
        add_consumer(L{&g_leaf[0]} | ex::let_error([](std::exception_ptr& ep) { return ex::just(Tok(-(int64_t) err_id_of(ep))); }),
            e, g_how, thr(r), (int) r.below(3), "let_error");
    }
    void shape_when_all2(Rng& r)
    {
        Expected e = all_exp({then_exp(leaf_exp(0), 0), leaf_exp(1)});
        if (e.channel == CH_VALUE) e.value = e.value + 1;
        add_consumer(ex::when_all(L{&g_leaf[0]} | thenk(0), L{&g_leaf[1]}) |
                ex::then([](Tok a, Tok b) { return Tok(a.get() + b.get() + 1); }),
            e, g_how, thr(r), (int) r.below(3), "when_all2");
    }
    void shape_when_all3(Rng& r)
    {
        Expected e = all_exp({leaf_exp(0), leaf_exp(1), leaf_exp(2)});
        add_consumer(ex::when_all(L{&g_leaf[0]}, L{&g_leaf[1]}, L{&g_leaf[2]}) |
                ex::then([](Tok a, Tok b, Tok c) { return Tok(a.get() + b.get() + c.get()); }),
            e, g_how, thr(r), (int) r.below(3), "when_all3");
    }
    void shape_when_all_vector(Rng& r)
    {
        int n = (int) r.range(1, 3);
        std::vector<L> v;
        std::vector<Expected> arms;
        for (int i = 0; i < n; i++)
        {
            v.push_back(L{&g_leaf[i]});
            arms.push_back(leaf_exp(i));
        }
        add_consumer(ex::when_all_vector(std::move(v)) | ex::then([](std::vector<Tok> ts) {
            int64_t s = 0;
            for (auto& t : ts) s += t.get();
            return Tok(s);
        }),
            all_exp(arms), g_how, thr(r), (int) r.below(3), "when_all_vector");
    }
    void shape_split(Rng& r)
    {
        auto s = ex::split(L{&g_leaf[0]} | thenk(0));
        int n = (int) r.range(1, 3);
        Expected base = then_exp(leaf_exp(0), 0);
        for (int i = 0; i < n; i++)
        {
            auto copy = s;
            // split sends a const reference
            add_consumer(std::move(copy) | ex::then([i](Tok const& t) { return Tok(t.get() + 10 * (i + 1)); }),
                [&] {
                    Expected e = base;
                    if (e.channel == CH_VALUE) e.value += 10 * (i + 1);
                    return e;
                }(),
                i == 0 ? g_how : how_further(r), thr(r), (int) r.below(4), "split consumer");
        }
        probe("split.consumers", (uint64_t) n);
    }
    void shape_ensure_started(Rng& r)
    {
        // started eagerly here, on the building thread
        auto s = ex::ensure_started(L{&g_leaf[0]} | thenk(0));
        Expected e = then_exp(leaf_exp(0), 0);
        if (r.chance(1, 5))
        {
            probe("ensure_started.dropped");
            return;    // dropped without a consumer: must not leak or crash
        }
        add_consumer(std::move(s) | thenk(1), then_exp(e, 1), g_how, thr(r), (int) r.below(4), "ensure_started consumer");
    }
    void shape_drop_value(Rng& r)
    {
        Expected e = leaf_exp(0);
        if (e.channel == CH_VALUE) e.value = 7;
        add_consumer(L{&g_leaf[0]} | ex::drop_value() | ex::then([] { return Tok(7); }), e, g_how, thr(r),
            (int) r.below(3), "drop_value");
    }
    void shape_split_tuple(Rng& r)
    {
        auto [a, b] = ex::split_tuple(LT{&g_leaf[0]});
        Expected ea = leaf_exp(0), eb = leaf_exp(0);
        if (eb.channel == CH_VALUE) eb.value += 1;
        add_consumer(std::move(a) | ex::then([](Tok const& t) { return Tok(t.get() + 5); }),
            [&] {
                Expected e = ea;
                if (e.channel == CH_VALUE) e.value += 5;
                return e;
            }(),
            g_how, thr(r), (int) r.below(4), "split_tuple<0>");
        add_consumer(std::move(b) | ex::then([](Tok const& t) { return Tok(t.get() + 6); }),
            [&] {
                Expected e = eb;
                if (e.channel == CH_VALUE) e.value += 6;
                return e;
            }(),
            how_further(r), thr(r), (int) r.below(4), "split_tuple<1>");
    }
    void shape_drop_op_state(Rng& r)
    {
        add_consumer(L{&g_leaf[0]} | thenk(0) | ex::drop_operation_state() | thenk(1),
            then_exp(then_exp(leaf_exp(0), 0), 1), g_how, thr(r), (int) r.below(3), "drop_operation_state");
    }
    void shape_unique_any(Rng& r)
    {
        ex::unique_any_sender<Tok> u(L{&g_leaf[0]} | thenk(0));
        add_consumer(std::move(u) | thenk(1), then_exp(then_exp(leaf_exp(0), 0), 1), g_how, thr(r), (int) r.below(3),
            "unique_any_sender");
    }
    void shape_any(Rng& r)
    {
        ex::any_sender<Tok> a(L{&g_leaf[0]});
        auto b = a;    // both copies are started: the leaf completes twice
        add_consumer(std::move(a) | thenk(0), then_exp(leaf_exp(0), 0), g_how, thr(r), (int) r.below(3), "any_sender");
        add_consumer(std::move(b) | thenk(1), then_exp(leaf_exp(0), 1), how_further(r), thr(r), (int) r.below(3), "any_sender copy");
    }
    void shape_unpack(Rng& r)
    {
        Expected e = leaf_exp(0);
        if (e.channel == CH_VALUE) e.value = e.value * 2 + 1;
        add_consumer(LT{&g_leaf[0]} | ex::unpack() | ex::then([](Tok a, Tok b) { return Tok(a.get() + b.get()); }), e,
            g_how, thr(r), (int) r.below(3), "unpack");
    }
    void shape_split_when_all(Rng& r)
    {
        auto s = ex::split(L{&g_leaf[0]});
        auto s2 = s;
        Expected l0 = leaf_exp(0);
        Expected e = all_exp({l0, l0, leaf_exp(1)});
        add_consumer(ex::when_all(std::move(s) | ex::then([](Tok const& t) { return Tok(t.get()); }),
                         std::move(s2) | ex::then([](Tok const& t) { return Tok(t.get()); }), L{&g_leaf[1]}) |
                ex::then([](Tok a, Tok b, Tok c) { return Tok(a.get() + b.get() + c.get()); }),
            e, g_how, thr(r), (int) r.below(3), "when_all(split,split,leaf)");
    }

    void shape_require_started(Rng& r)
    {
        add_consumer(ex::require_started(L{&g_leaf[0]} | thenk(0)) | thenk(1), then_exp(then_exp(leaf_exp(0), 0), 1), g_how,
            thr(r), (int) r.below(3), "require_started");
    }
    void shape_let_error_leaf(Rng& r)
    {
        // the error of leaf 0 is replaced by whatever leaf 1 completes with
        Expected e = leaf_exp(0);
        if (e.channel == CH_ERROR) e = leaf_exp(1);
        add_consumer(L{&g_leaf[0]} | ex::let_error([](std::exception_ptr&) { return L{&g_leaf[1]}; }) | thenk(2),
            then_exp(e, 2), g_how, thr(r), (int) r.below(3), "let_error(leaf)");
    }
    void shape_let_value_throws(Rng& r)
    {
        // the callable of let_value itself throws (flag 3)
        Expected e = leaf_exp(0);
        if (e.channel == CH_VALUE)
        {
            if (g_throw[3])
            {
                e.channel = CH_ERROR;
                e.err_ids = {103};
            }
            else
                e.value += 2000;
        }
        add_consumer(L{&g_leaf[0]} | ex::let_value([](Tok& t) {
            bool th;
            {
                AtomicSection a;
                th = g_throw[3];
            }
            if (th) throw TestError(103);
            return ex::just(Tok(t.get() + 2000));
        }),
            e, g_how, thr(r), (int) r.below(3), "let_value(throws)");
    }
    void shape_ensure_started_split(Rng& r)
    {
        auto s = ex::split(ex::ensure_started(L{&g_leaf[0]} | thenk(0)));
        Expected base = then_exp(leaf_exp(0), 0);
        int n = (int) r.range(1, 3);
        for (int i = 0; i < n; i++)
        {
            auto copy = s;
            add_consumer(std::move(copy) | ex::then([](Tok const& t) { return Tok(t.get()); }), base, i == 0 ? g_how : 0, thr(r),
                (int) r.below(4), "split(ensure_started) consumer");
        }
    }
    void shape_split_ensure_started(Rng& r)
    {
        // ensure_started(split(...)): the eager start is itself one consumer of the split state
        auto s = ex::split(L{&g_leaf[0]});
        auto s2 = s;
        Expected l0 = leaf_exp(0);
        add_consumer(ex::ensure_started(std::move(s) | ex::then([](Tok const& t) { return Tok(t.get() + 1); })) | thenk(0),
            [&] {
                Expected e = l0;
                if (e.channel == CH_VALUE) e.value += 1;
                return then_exp(e, 0);
            }(),
            g_how, thr(r), (int) r.below(3), "ensure_started(split)");
        add_consumer(std::move(s2) | ex::then([](Tok const& t) { return Tok(t.get() + 2); }),
            [&] {
                Expected e = l0;
                if (e.channel == CH_VALUE) e.value += 2;
                return e;
            }(),
            how_further(r), thr(r), (int) r.below(4), "split second consumer");
    }
    void shape_when_all_nested(Rng& r)
    {
        // when_all(when_all(l0, l1) | then, l2 | let_value -> l3)
        Expected inner = all_exp({leaf_exp(0), leaf_exp(1)});
        Expected right = leaf_exp(2);
        if (right.channel == CH_VALUE) right = leaf_exp(3);
        Expected e = all_exp({inner, right});
        add_consumer(ex::when_all(ex::when_all(L{&g_leaf[0]}, L{&g_leaf[1]}) |
                             ex::then([](Tok a, Tok b) { return Tok(a.get() + b.get()); }),
                         L{&g_leaf[2]} | ex::let_value([](Tok&) { return L{&g_leaf[3]}; })) |
                ex::then([](Tok a, Tok b) { return Tok(a.get() + b.get()); }),
            e, g_how, thr(r), (int) r.below(3), "when_all(when_all, let_value)");
    }

    void shape_drop_op_state_when_all(Rng& r)
    {
        // predecessors that store their result (when_all, split, ensure_started) in front of drop_operation_state
        int k = (int) r.below(3);
        Expected e;
        if (k == 0)
        {
            e = all_exp({then_exp(leaf_exp(0), 0), leaf_exp(1)});
            add_consumer(ex::when_all(L{&g_leaf[0]} | thenk(0), L{&g_leaf[1]}) |
                    ex::then([](Tok a, Tok b) { return Tok(a.get() + b.get()); }) | ex::drop_operation_state() | thenk(1),
                then_exp(e, 1), g_how, thr(r), (int) r.below(3), "when_all|drop_operation_state");
        }
        else if (k == 1)
        {
            e = then_exp(leaf_exp(0), 0);
            add_consumer(ex::split(L{&g_leaf[0]} | thenk(0)) | ex::then([](Tok const& t) { return Tok(t.get()); }) |
                    ex::drop_operation_state() | thenk(1),
                then_exp(e, 1), g_how, thr(r), (int) r.below(3), "split|drop_operation_state");
        }
        else
        {
            e = then_exp(leaf_exp(0), 0);
            add_consumer(ex::ensure_started(L{&g_leaf[0]} | thenk(0)) | ex::drop_operation_state() | thenk(1), then_exp(e, 1),
                g_how, thr(r), (int) r.below(4), "ensure_started|drop_operation_state");
        }
    }

    void shape_let_error_keeps_ref(Rng& r)
    {
        // the sender returned by the callable keeps the reference to the stored error and looks at it when it
        // completes, possibly long after the predecessor's set_error has returned
        Expected e = leaf_exp(0);
        if (e.channel == CH_ERROR)
        {
            int id = e.err_ids[0];
            e = leaf_exp(1);
            if (e.channel == CH_VALUE) e.value += id;
        }
        add_consumer(L{&g_leaf[0]} | ex::let_error([](std::exception_ptr& ep) {
            return L{&g_leaf[1]} | ex::then([&ep](Tok t) { return Tok(t.get() + err_id_of(ep)); });
        }),
            e, g_how, thr(r), (int) r.below(3), "let_error(keeps reference)");
    }
    void shape_let_value_keeps_ref(Rng& r)
    {
        Expected e = leaf_exp(0);
        if (e.channel == CH_VALUE)
        {
            int64_t v = e.value;
            e = leaf_exp(1);
            if (e.channel == CH_VALUE) e.value += v;
        }
        add_consumer(L{&g_leaf[0]} | ex::let_value([](Tok& t) {
            return L{&g_leaf[1]} | ex::then([&t](Tok x) { return Tok(x.get() + t.get()); });
        }),
            e, g_how, thr(r), (int) r.below(3), "let_value(keeps reference)");
    }

    // shapes that need schedulers (runtime)
    void shape_schedule(Rng& r)
    {
        Expected e;
        e.value = 41;
        add_consumer(ex::schedule(ex::thread_pool_scheduler{}) | ex::then([] { return Tok(41); }) | thenk(0), then_exp(e, 0),
            g_how, thr(r), (int) r.below(3), "schedule|then");
    }
    void shape_continues_on(Rng& r)
    {
        add_consumer(L{&g_leaf[0]} | ex::continues_on(ex::thread_pool_scheduler{}) | thenk(0), then_exp(leaf_exp(0), 0),
            g_how, thr(r), (int) r.below(3), "continues_on");
    }
    void shape_transfer_just(Rng& r)
    {
        Expected e;
        e.value = 55;
        add_consumer(ex::transfer_just(ex::thread_pool_scheduler{}, Tok(55)) | thenk(0), then_exp(e, 0), g_how, thr(r),
            (int) r.below(3), "transfer_just");
    }
    void shape_when_all_sched(Rng& r)
    {
        Expected s;
        s.value = 9;
        Expected e = all_exp({s, then_exp(leaf_exp(0), 0)});
        add_consumer(ex::when_all(ex::schedule(ex::thread_pool_scheduler{}) | ex::then([] { return Tok(9); }),
                         L{&g_leaf[0]} | ex::continues_on(ex::thread_pool_scheduler{}) | thenk(0)) |
                ex::then([](Tok a, Tok b) { return Tok(a.get() + b.get()); }),
            e, g_how, thr(r), (int) r.below(3), "when_all(schedule, continues_on)");
    }
    void shape_split_sched(Rng& r)
    {
        auto s = ex::split(L{&g_leaf[0]} | ex::continues_on(ex::thread_pool_scheduler{}) | thenk(0));
        Expected base = then_exp(leaf_exp(0), 0);
        int n = (int) r.range(1, 3);
        for (int i = 0; i < n; i++)
        {
            auto copy = s;
            add_consumer(std::move(copy) | ex::then([](Tok const& t) { return Tok(t.get()); }), base, i == 0 ? g_how : 0,
                thr(r), (int) r.below(4), "split(continues_on) consumer");
        }
    }

    using shape_fn = void (*)(Rng&);
    shape_fn const pure_shapes[] = {shape_then_chain, shape_let_value, shape_let_error, shape_when_all2, shape_when_all3,
        shape_when_all_vector, shape_split, shape_ensure_started, shape_drop_value, shape_split_tuple, shape_drop_op_state,
        shape_unique_any, shape_any, shape_unpack, shape_split_when_all, shape_require_started, shape_let_error_leaf,
        shape_let_value_throws, shape_ensure_started_split, shape_split_ensure_started, shape_when_all_nested,
        shape_drop_op_state_when_all, shape_let_error_keeps_ref, shape_let_value_keeps_ref};
    shape_fn const sched_shapes[] = {shape_schedule, shape_continues_on, shape_transfer_just, shape_when_all_sched,
        shape_split_sched, shape_split, shape_ensure_started, shape_when_all2, shape_ensure_started_split, shape_when_all_nested,
        shape_drop_op_state_when_all, shape_let_error_keeps_ref, shape_let_value_keeps_ref};
    constexpr int NPURE = sizeof(pure_shapes) / sizeof(pure_shapes[0]);
    constexpr int NSCHED = sizeof(sched_shapes) / sizeof(sched_shapes[0]);

    void check_outcome(Consumer& c, int idx)
    {
        VH_CHECK(c.out.signals() == 1, c.out.signals() == 0 ? "C03.no_completion" : "C03.signalled_twice",
            "consumer %d (%s): %d completion signals", idx, c.what, c.out.signals());
        int got = c.out.nvalue ? CH_VALUE : c.out.nerror ? CH_ERROR : CH_STOPPED;
        bool ok = got == c.exp.channel;
        // when_all with both an error and a stop among its arms may report either
        if (!ok && c.exp.channel == CH_ERROR && got == CH_STOPPED)
            for (int id : c.exp.err_ids)
                if (id == -100) ok = true;
        VH_CHECK(ok, "C03.wrong_channel", "consumer %d (%s): completed on channel %d, the pipeline denotes channel %d", idx,
            c.what, got, c.exp.channel);
        if (got == CH_VALUE)
            VH_CHECK(c.out.value == c.exp.value, "C03.wrong_value", "consumer %d (%s): value %lld, expected %lld", idx, c.what,
                (long long) c.out.value, (long long) c.exp.value);
        if (got == CH_ERROR)
        {
            bool found = false;
            for (int id : c.exp.err_ids)
                if (id == c.out.err_id) found = true;
            VH_CHECK(found, "C03.wrong_error", "consumer %d (%s): error id %d is not one the pipeline denotes", idx, c.what,
                c.out.err_id);
        }
    }

    void run_pipelines(RunCtx& ctx, bool with_runtime)
    {
        Rng r(mix_seed(ctx.seed, 30));
        if (with_runtime) pk::draw_runtime(ctx, 4);
        int nshapes = with_runtime ? NSCHED : NPURE;
        // program: op0 = [shape, how, nthreads]; ops 1..4 = leaf behaviour [channel, timing, value, err];
        // op 5 = throw flags
        if (!ctx.program_from_replay)
        {
            Program p;
            Op s;
            s.v[0] = (int64_t) r.below((uint64_t) nshapes);
            {
                uint64_t x = r.below(100);
                s.v[1] = x < 20 ? 1 : x < 35 ? 2 : 0;    // sync_wait / start_detached consumption for the first consumer
            }
            s.v[2] = r.range(1, 3);
            p.push_back(s);
            for (int i = 0; i < 4; i++)
            {
                Op l;
                uint64_t x = r.below(100);
                l.v[0] = x < 65 ? CH_VALUE : x < 85 ? CH_ERROR : CH_STOPPED;
                l.v[1] = r.chance(1, 2) ? T_LATER : T_INLINE;
                l.v[2] = 100 + 100 * i + (int64_t) r.below(50);
                l.v[3] = 10 + i;
                p.push_back(l);
            }
            Op t;
            for (int k = 0; k < 4; k++) t.v[k] = r.chance(1, 6) ? 1 : 0;
            p.push_back(t);
            ctx.program = p;
        }
        Program const& p = ctx.program;
        auto opv = [&](size_t i, int j) -> int64_t { return i < p.size() ? p[i].v[j] : 0; };
        int shape = (int) (((opv(0, 0) % nshapes) + nshapes) % nshapes);
        g_how = (int) (((opv(0, 1) % 3) + 3) % 3);
        g_nthreads = (int) (opv(0, 2) < 1 ? 1 : opv(0, 2) > 3 ? 3 : opv(0, 2));
        for (int i = 0; i < 4; i++)
        {
            g_leaf[i].channel = (int) (((opv((size_t) i + 1, 0) % 3) + 3) % 3);
            g_leaf[i].timing = (int) (opv((size_t) i + 1, 1) & 1);
            g_leaf[i].value = opv((size_t) i + 1, 2);
            g_leaf[i].err_id = (int) opv((size_t) i + 1, 3);
            g_throw[i] = opv(5, i) != 0;
        }
        ctx.params.set("c03.shape", shape);
        sim_config sc = draw_sim_config(ctx, with_runtime ? 40000 : 4000, FAULT_STALL);
        begin_sim(ctx, sc);
        focus_select(ctx, c03_focus, 3);
        g_dump_hook = +[]() -> std::string {
            std::string s = (pika::detail::get_runtime_ptr() ? pk::dump() : std::string("no runtime")) + " | consumers:";
            for (size_t i = 0; i < consumers.size(); i++)
                s += sfmt(" [%zu %s started=%d signals=%d]", i, consumers[i]->what, (int) consumers[i]->started,
                    consumers[i]->out.signals());
            for (int i = 0; i < 4; i++)
                s += sfmt(" leaf%d(starts=%d done=%d pending=%zu)", i, g_leaf[i].starts, g_leaf[i].completions,
                    g_leaf[i].pending.size());
            return s;
        };
        if (with_runtime) pk::start(ctx);
        {
            Rng rs(mix_seed(ctx.seed, 31));
            (with_runtime ? sched_shapes : pure_shapes)[shape](rs);
        }
        probe(sfmt("%s.shape%d", with_runtime ? "sched" : "pure", shape).c_str());
        // threads: each runs the consumers assigned to it; a completer fires the later-completing leaves
        static bool all_started = false;
        std::vector<std::thread> th;
        for (int t = 0; t < g_nthreads; t++)
            th.emplace_back([t] {
                for (auto& c : consumers)
                {
                    if (c->thread != t) continue;
                    for (int y = 0; y < c->delay; y++) std::this_thread::yield();
                    c->go(*c);
                }
            });
        std::thread completer([] {
            for (;;)
            {
                bool any = false;
                for (int i = 0; i < 4; i++)
                {
                    for (;;)
                    {
                        std::function<void()> f;
                        {
                            AtomicSection a;
                            if (g_leaf[i].pending.empty()) break;
                            f = std::move(g_leaf[i].pending.back());
                            g_leaf[i].pending.pop_back();
                        }
                        any = true;
                        f();
                    }
                }
                bool done;
                {
                    AtomicSection a;
                    done = all_started;
                    if (done)
                        for (auto& c : consumers)
                            if (c->out.signals() == 0) done = false;
                }
                if (done && !any) break;
                if (!any) std::this_thread::yield();
            }
        });
        for (auto& t : th) t.join();
        {
            AtomicSection a;
            all_started = true;
        }
        sim_quiesce(3000000);
        completer.join();
        if (with_runtime) pika::wait();
        // every consumer got exactly its denoted signal
        for (size_t i = 0; i < consumers.size(); i++) check_outcome(*consumers[i], (int) i);
        // destroy the operation states: nothing may be signalled afterwards, every stored object
        // is destroyed exactly once
        for (auto& c : consumers)
        {
            c->op.reset();
            c->out.op_destroyed = true;
            c->go = nullptr;
        }
        for (int i = 0; i < 4; i++)
            VH_CHECK(g_leaf[i].pending.empty() && g_leaf[i].completions == g_leaf[i].starts, "C03.harness",
                "leaf %d: %d starts, %d completions", i, g_leaf[i].starts, g_leaf[i].completions);
        if (with_runtime)
        {
            pika::wait();
            pk::stop();
        }
        VH_CHECK(Tok::bad_access == 0, "C03.payload_use_after_destruction", "%d accesses to a destroyed payload object",
            Tok::bad_access);
        VH_CHECK(TestError::bad_access == 0, "C03.error_use_after_destruction",
            "%d accesses to an exception object that had already been destroyed (a dangling exception_ptr was delivered)",
            TestError::bad_access);
        VH_CHECK(TestError::live == 0, "C03.error_leak", "%d exception objects alive after all operation states were destroyed",
            TestError::live);
        VH_CHECK(Tok::live == 0, "C03.payload_leak_or_double_destruction",
            "%d payload objects alive after all operation states were destroyed (constructed %d destroyed %d)", Tok::live,
            Tok::constructed, Tok::destroyed);
        focus_report();
    }

    void run_pure(RunCtx& c) { run_pipelines(c, false); }
    void run_sched(RunCtx& c) { run_pipelines(c, true); }

    Registrar r1(Workload{"C03", "pure", 70, run_pure, nullptr});
    Registrar r2(Workload{"C03", "sched", 30, run_sched, pk::preload});

}    // namespace
