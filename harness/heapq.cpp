// Heap quarantine: every block released through operator delete (by the runner, libpika and libstdc++ alike) is
// filled with a pattern and never handed out again during the run; at the end of a run every quarantined block
// must still hold the pattern. A write through a dangling pointer (an operation state, shared state, queue node
// or task object used after it was released) thereby becomes a violation of the run instead of silent
// corruption, and a read through one yields the pattern (an invalid pointer / absurd value), not stale but
// plausible data. Compiled without any instrumentation: nothing in here is a schedule point.
#include <cstddef>
#include <cstdint>
#include <cstdio>
#include <cstdlib>
#include <cstring>
#include <new>

#include <dlfcn.h>
#include <malloc.h>

namespace vh {
    struct QBlock
    {
        void* p;
        uint32_t n;
        void* site;    // return address of the operator delete call
    };
    static constexpr unsigned char PATTERN = 0xDD;
    static constexpr size_t MAX_BLOCK = 16384;          // larger blocks are released normally
    static constexpr size_t MAX_BYTES = 192u << 20;     // quarantine budget, oldest blocks leave first (checked)
    static constexpr size_t RING = 3u << 15;    // at most 98304 blocks are kept (the oldest leave first, checked)
    static QBlock* g_ring = nullptr;
    static size_t g_head = 0, g_tail = 0, g_bytes = 0;
    static int g_lock = 0;
    static bool g_on = false;    // switched on for the duration of a run (in the per-run process)
    static char g_first_dirty[512] = "";
    static uint64_t g_nq = 0;

    // open-addressing set of the quarantined block addresses: a second release of a block that is still in
    // quarantine is a double delete
    static constexpr size_t SETSZ = 1u << 18;    // (2 MiB: a larger table costs a page fault per release in every per-run process)
    static void* g_set[SETSZ];
    static size_t slot_of(void* p) { return (size_t) (((uintptr_t) p >> 4) * 0x9E3779B97F4A7C15ull >> 40) & (SETSZ - 1); }
    static bool set_has(void* p)
    {
        for (size_t i = slot_of(p);; i = (i + 1) & (SETSZ - 1))
        {
            if (g_set[i] == p) return true;
            if (!g_set[i]) return false;
        }
    }
    static void set_add(void* p)
    {
        size_t i = slot_of(p);
        while (g_set[i] && g_set[i] != (void*) 1) i = (i + 1) & (SETSZ - 1);
        g_set[i] = p;
    }
    static void set_del(void* p)
    {
        for (size_t i = slot_of(p);; i = (i + 1) & (SETSZ - 1))
        {
            if (g_set[i] == p)
            {
                g_set[i] = (void*) 1;    // tombstone
                return;
            }
            if (!g_set[i]) return;
        }
    }

    static void lock()
    {
        while (__atomic_exchange_n(&g_lock, 1, __ATOMIC_ACQUIRE)) { }
    }
    static void unlock() { __atomic_store_n(&g_lock, 0, __ATOMIC_RELEASE); }

    static bool check_block(QBlock const& b)
    {
        unsigned char const* c = (unsigned char const*) b.p;
        size_t first = b.n, cnt = 0;
        for (size_t i = 0; i < b.n; i++)
            if (c[i] != PATTERN)
            {
                if (first == b.n) first = i;
                cnt++;
            }
        if (!cnt) return true;
        if (!g_first_dirty[0])
        {
            Dl_info di;
            char const* sym = "?";
            unsigned long off = (unsigned long) (uintptr_t) b.site;
            if (dladdr(b.site, &di))
            {
                if (di.dli_sname)
                {
                    sym = di.dli_sname;
                    off = (unsigned long) ((char*) b.site - (char*) di.dli_saddr);
                }
                else if (di.dli_fname)
                {
                    // no exported symbol: module + offset (for addr2line -e <module> <offset>)
                    char const* slash = strrchr(di.dli_fname, '/');
                    sym = slash ? slash + 1 : di.dli_fname;
                    off = (unsigned long) ((char*) b.site - (char*) di.dli_fbase);
                }
            }
            snprintf(g_first_dirty, sizeof(g_first_dirty),
                "a heap block of %u bytes (released from %s+0x%lx) was written after its release: %zu bytes changed, "
                "the first at offset %zu",
                b.n, sym, off, cnt, first);
        }
        return false;
    }

    static void release(void* p, void* site) noexcept
    {
        if (!p) return;
        size_t n = malloc_usable_size(p);
        if (!g_on || n == 0 || n > MAX_BLOCK)
        {
            free(p);
            return;
        }
        lock();
        if (set_has(p))
        {
            if (!g_first_dirty[0])
                snprintf(g_first_dirty, sizeof(g_first_dirty), "a heap block of %zu bytes was released twice", n);
            unlock();
            return;
        }
        memset(p, PATTERN, n);
        if (!g_ring) g_ring = (QBlock*) calloc(RING, sizeof(QBlock));
        while (g_ring && (g_bytes + n > MAX_BYTES || g_head - g_tail >= RING))
        {
            QBlock b = g_ring[g_tail % RING];
            g_tail++;
            g_bytes -= b.n;
            check_block(b);
            set_del(b.p);
            free(b.p);
        }
        if (g_ring)
        {
            set_add(p);
            g_ring[g_head % RING] = QBlock{p, (uint32_t) n, site};
            g_head++;
            g_bytes += n;
            g_nq++;
        }
        unlock();
        if (!g_ring) free(p);
    }

    // nullptr: every quarantined block still holds the pattern
    char const* heapq_first_dirty()
    {
        lock();
        for (size_t i = g_tail; i != g_head && !g_first_dirty[0]; i++) check_block(g_ring[i % RING]);
        unlock();
        return g_first_dirty[0] ? g_first_dirty : nullptr;
    }
    // the parent of the per-run processes keeps nothing from one run to the next
    void heapq_drop_all()
    {
        lock();
        while (g_head != g_tail)
        {
            QBlock b = g_ring[g_tail % RING];
            g_tail++;
            set_del(b.p);
            free(b.p);
        }
        g_bytes = 0;
        g_first_dirty[0] = 0;
        unlock();
    }
    void heapq_enable(bool on) { g_on = on; }
    uint64_t heapq_count() { return g_nq; }
}    // namespace vh

static void* alloc(size_t n)
{
    void* p = malloc(n ? n : 1);
    if (!p) throw std::bad_alloc();
    return p;
}
static void* alloc_al(size_t n, size_t al)
{
    void* p = nullptr;
    if (al < sizeof(void*)) al = sizeof(void*);
    if (posix_memalign(&p, al, n ? n : 1) != 0 || !p) throw std::bad_alloc();
    return p;
}
void* operator new(size_t n) { return alloc(n); }
void* operator new[](size_t n) { return alloc(n); }
void* operator new(size_t n, std::nothrow_t const&) noexcept { return malloc(n ? n : 1); }
void* operator new[](size_t n, std::nothrow_t const&) noexcept { return malloc(n ? n : 1); }
void* operator new(size_t n, std::align_val_t a) { return alloc_al(n, (size_t) a); }
void* operator new[](size_t n, std::align_val_t a) { return alloc_al(n, (size_t) a); }
void* operator new(size_t n, std::align_val_t a, std::nothrow_t const&) noexcept
{
    void* p = nullptr;
    return posix_memalign(&p, (size_t) a < sizeof(void*) ? sizeof(void*) : (size_t) a, n ? n : 1) == 0 ? p : nullptr;
}
void* operator new[](size_t n, std::align_val_t a, std::nothrow_t const&) noexcept
{
    void* p = nullptr;
    return posix_memalign(&p, (size_t) a < sizeof(void*) ? sizeof(void*) : (size_t) a, n ? n : 1) == 0 ? p : nullptr;
}
#define SITE __builtin_return_address(0)
void operator delete(void* p) noexcept { vh::release(p, SITE); }
void operator delete[](void* p) noexcept { vh::release(p, SITE); }
void operator delete(void* p, size_t) noexcept { vh::release(p, SITE); }
void operator delete[](void* p, size_t) noexcept { vh::release(p, SITE); }
void operator delete(void* p, std::nothrow_t const&) noexcept { vh::release(p, SITE); }
void operator delete[](void* p, std::nothrow_t const&) noexcept { vh::release(p, SITE); }
void operator delete(void* p, std::align_val_t) noexcept { vh::release(p, SITE); }
void operator delete[](void* p, std::align_val_t) noexcept { vh::release(p, SITE); }
void operator delete(void* p, size_t, std::align_val_t) noexcept { vh::release(p, SITE); }
void operator delete[](void* p, size_t, std::align_val_t) noexcept { vh::release(p, SITE); }
void operator delete(void* p, std::align_val_t, std::nothrow_t const&) noexcept { vh::release(p, SITE); }
void operator delete[](void* p, std::align_val_t, std::nothrow_t const&) noexcept { vh::release(p, SITE); }
