// C19 — suspending and resuming pools or workers never loses work.
#include "parties.hpp"

#include <pika/runtime/thread_pool_helpers.hpp>
#include <pika/threading_base/scheduler_base.hpp>

#include <memory>

using namespace vh;
namespace ex = pika::execution::experimental;
namespace tt = pika::this_thread::experimental;

namespace {

    std::vector<std::string> const c19_focus = {"suspend_processing_unit", "resume_processing_unit", "scheduler_base::suspend",
        "scheduler_base::resume", "select_active_pu", "scheduling_loop", "suspend_internal", "resume_internal", "get_next_thread",
        "wait_or_add_new"};
    struct FocusInit
    {
        FocusInit()
        {
            for (auto& s : c19_focus) focus_patterns().push_back(s);
        }
    } focus_init;

    enum
    {
        OP_SUSPEND_PU = 1,
        OP_RESUME_PU = 2,
        OP_SUSPEND_POOL = 3,
        OP_RESUME_POOL = 4,
        OP_SUBMIT = 5,    // a = count, b = hint (-1 none)
        OP_YIELD = 6,
        OP_REFUSED = 7,   // operations that must be refused
        OP_RACE_RESUME = 8,    // resume a processing unit without waiting for other control operations
    };

    pika::threads::detail::thread_pool_base* victim = nullptr;
    int g_nv = 0;
    bool g_elastic = true;
    // model per processing unit: 0 = running, 1 = suspended (between the return of a suspend that no resume
    // overlapped and the invocation of a resume), 2 = unknown (a resume overlapped a suspend of the same
    // unit: either order is a legal outcome)
    std::vector<int> suspended;
    std::vector<int> sepoch, repoch, susp_inflight, race_inflight;    // per unit: suspend / racing-resume events and calls in flight
    int g_race_active = 0;
    int g_susp_in_flight_pu = -1;
    bool g_pool_op_busy = false;
    bool g_pool_suspended = false;
    bool g_control_busy = false;
    int g_submitted = 0, g_entered = 0, g_finished = 0;
    std::vector<int> entries;

    void task_body(int tok, int yields)
    {
        entries[(size_t) tok]++;
        VH_CHECK(entries[(size_t) tok] == 1, "C19.task_twice", "task %d entered %d times", tok, entries[(size_t) tok]);
        g_entered++;
        for (int y = 0; y <= yields; y++)
        {
            if (pika::this_thread::get_pool() == victim)
            {
                std::size_t w = pika::get_local_worker_thread_num();
                VH_CHECK(w < (std::size_t) g_nv, "C19.worker_range", "worker number %zu", w);
                VH_CHECK(suspended[w] != 1 && !g_pool_suspended, "C19.ran_on_suspended_worker",
                    "task %d runs a phase on worker %zu of the victim pool while that worker is suspended", tok, w);
            }
            if (y < yields) pika::this_thread::yield();
        }
        g_finished++;
    }

    void submit_tasks(int n, int hint, int yields)
    {
        ex::thread_pool_scheduler s{victim};
        for (int i = 0; i < n; i++)
        {
            int tok = g_submitted++;
            entries.push_back(0);
            if (hint >= 0)
                ex::execute(ex::with_hint(s, pika::execution::thread_schedule_hint((std::int16_t) (hint % g_nv))),
                    [tok, yields] { task_body(tok, yields); });
            else
                ex::execute(s, [tok, yields] { task_body(tok, yields); });
        }
    }

    int active_pus()
    {
        int n = 0;
        for (int s : suspended)
            if (!s) n++;
        return n;
    }

    struct ControlScope
    {
        bool os;
        explicit ControlScope(bool o)
          : os(o)
        {
            while (g_control_busy) poll_pause(os);
            g_control_busy = true;
        }
        ~ControlScope() { g_control_busy = false; }
    };

    void run_party(Program const& prog, int me, bool os)
    {
        for (auto const& op : prog)
        {
            if (op.v[0] != me) continue;
            int a = (int) op.v[2], b = (int) op.v[3];
            switch (op.v[1])
            {
            case OP_SUSPEND_PU:
            {
                if (!g_elastic) break;
                ControlScope cs(os);
                int pu = ((a % g_nv) + g_nv) % g_nv;
                if (g_pool_suspended || suspended[(size_t) pu] || active_pus() <= 1) break;
                size_t u = (size_t) pu;
                int r0 = repoch[u];
                bool overlapped = race_inflight[u] > 0;
                sepoch[u]++;
                susp_inflight[u]++;
                g_susp_in_flight_pu = pu;
                victim->suspend_processing_unit_direct((std::size_t) pu);
                g_susp_in_flight_pu = -1;
                susp_inflight[u]--;
                sepoch[u]++;
                if (overlapped || race_inflight[u] > 0 || repoch[u] != r0)
                {
                    suspended[u] = 2;    // a resume overlapped this suspend: either order is legal
                    probe("suspend_overlapped_by_resume");
                }
                else
                    suspended[u] = 1;
                ev(OP_SUSPEND_PU, pu);
                probe("suspend_pu");
                break;
            }
            case OP_RESUME_PU:
            {
                if (!g_elastic) break;
                ControlScope cs(os);
                int pu = ((a % g_nv) + g_nv) % g_nv;
                if (g_pool_suspended || !suspended[(size_t) pu]) break;
                suspended[(size_t) pu] = 0;
                ev(OP_RESUME_PU, pu);
                victim->resume_processing_unit_direct((std::size_t) pu);
                probe("resume_pu");
                break;
            }
            case OP_SUSPEND_POOL:
            {
                ControlScope cs(os);
                if (g_pool_suspended || active_pus() != g_nv || g_race_active) break;
                // suspend_direct waits until the pool is idle
                g_pool_op_busy = true;
                victim->suspend_direct();
                g_pool_op_busy = false;
                g_pool_suspended = true;
                for (auto& s : suspended) s = 1;
                probe("suspend_pool");
                break;
            }
            case OP_RESUME_POOL:
            {
                ControlScope cs(os);
                if (!g_pool_suspended) break;
                g_pool_op_busy = true;
                g_pool_suspended = false;
                for (auto& s : suspended) s = 0;
                victim->resume_direct();
                g_pool_op_busy = false;
                probe("resume_pool");
                break;
            }
            case OP_RACE_RESUME:
            {
                // not serialised with the other parties' suspend/resume calls on processing units
                if (!g_elastic || g_pool_suspended || g_pool_op_busy) break;
                int pu = ((a % g_nv) + g_nv) % g_nv;
                // half of them aim at a suspend in flight: wait (bounded) for one, then resume that unit
                if (b >= 0)
                {
                    for (int w = 0; w < 60 && g_susp_in_flight_pu < 0; w++)
                    {
                        if (os)
                            std::this_thread::yield();
                        else
                            pika::this_thread::yield();
                    }
                    if (g_susp_in_flight_pu >= 0)
                    {
                        pu = g_susp_in_flight_pu;
                        probe("race_resume_aimed_at_suspend_in_flight");
                    }
                    if (g_pool_suspended || g_pool_op_busy) break;
                }
                size_t u = (size_t) pu;
                g_race_active++;
                int s0 = sepoch[u];
                bool overlapped = susp_inflight[u] > 0;
                repoch[u]++;
                race_inflight[u]++;
                if (suspended[u] == 1) suspended[u] = 2;    // tasks may run on it from now on
                victim->resume_processing_unit_direct((std::size_t) pu);
                race_inflight[u]--;
                repoch[u]++;
                if (!overlapped && sepoch[u] == s0)
                    suspended[u] = 0;    // no suspend overlapped: the unit is running now
                else
                {
                    // a suspend still in flight sets the state itself when it returns
                    if (susp_inflight[u] == 0) suspended[u] = 2;
                    probe("resume_overlapped_suspend");
                }
                g_race_active--;
                probe("race_resume");
                break;
            }
            case OP_SUBMIT:
                submit_tasks(1 + (a & 7), b, (int) (op.v[4] & 3));
                break;
            case OP_YIELD:
                for (int i = 0; i < (a & 3) + 1; i++)
                {
                    if (os)
                        std::this_thread::yield();
                    else
                        pika::this_thread::yield();
                }
                break;
            case OP_REFUSED:
            {
                ControlScope cs(os);
                if (g_pool_suspended) break;
                pika::error_code ec(pika::throwmode::lightweight);
                int pu = ((a % g_nv) + g_nv) % g_nv;
                if (!g_elastic)
                {
                    // no elasticity: suspending a processing unit is refused and leaves it running
                    victim->suspend_processing_unit_direct((std::size_t) pu, ec);
                    VH_CHECK(ec.value() == (int) pika::error::invalid_status, "C19.refusal_missing",
                        "suspend_processing_unit_direct on a pool without elasticity reported error %d", ec.value());
                    auto st = victim->get_scheduler()->get_state((std::size_t) pu).load();
                    VH_CHECK(st == pika::runtime_state::running, "C19.refused_but_suspended",
                        "the refused suspend left worker %d in state %d instead of running", pu, (int) st);
                    probe("refused.no_elasticity");
                }
                else if (!os)
                {
                    // a pool suspending itself is refused
                    bool done = false;
                    int err = -1;
                    ex::execute(ex::thread_pool_scheduler{victim}, [&done, &err] {
                        pika::error_code e2(pika::throwmode::lightweight);
                        victim->suspend_direct(e2);
                        err = e2.value();
                        done = true;
                    });
                    while (!done) poll_pause(false);
                    VH_CHECK(err == (int) pika::error::bad_parameter, "C19.refusal_missing",
                        "a pool suspending itself reported error %d", err);
                    probe("refused.self_suspend");
                }
                break;
            }
            default:
                break;
            }
        }
    }

    void run_susp(RunCtx& ctx, bool elastic)
    {
        Rng r(mix_seed(ctx.seed, 1900));
        pk::draw_runtime(ctx, 3);
        g_elastic = elastic;
        int vpol = (int) ctx.params.set("c19.victim_policy", (int64_t) r.below(8));
        g_nv = (int) ctx.params.set("c19.victim_threads", r.range(2, 5));
        int nparties = (int) ctx.params.set("c19.parties", r.range(1, 4));
        int64_t os_mask = ctx.params.set("c19.os_mask", (int64_t) r.below(16));
        if (!ctx.program_from_replay)
        {
            Program p;
            int nops = (int) r.range(3, ctx.thorough ? 30 : 18);
            for (int i = 0; i < nops; i++)
            {
                Op op;
                op.v[0] = (int64_t) r.below((uint64_t) nparties);
                uint64_t x = r.below(100);
                op.v[1] = x < 22 ? OP_SUSPEND_PU : x < 36 ? OP_RESUME_PU : x < 42 ? OP_SUSPEND_POOL : x < 50 ? OP_RESUME_POOL :
                    x < 78                                                                                       ? OP_SUBMIT :
                    x < 84                                                                                       ? OP_YIELD :
                    x < 92                                                                                       ? OP_REFUSED :
                                                                                                                   OP_RACE_RESUME;
                op.v[2] = (int64_t) r.below(8);
                op.v[3] = r.chance(1, 2) ? (int64_t) r.below(8) : -1;
                op.v[4] = (int64_t) r.below(4);
                p.push_back(op);
            }
            ctx.program = p;
        }
        sim_config sc = draw_sim_config(ctx, 100000, FAULT_STALL | FAULT_TRYFAIL | FAULT_SPURIOUS);
        begin_sim(ctx, sc);
        focus_select(ctx, c19_focus, 3);
        g_dump_hook = +[]() -> std::string {
            std::string s = pk::dump() + sfmt(" | victim: pool_suspended=%d submitted=%d entered=%d finished=%d pus:", (int) g_pool_suspended,
                                     g_submitted, g_entered, g_finished);
            for (size_t i = 0; i < suspended.size(); i++)
                s += sfmt(" %zu:%s/state%d", i, suspended[i] ? "susp" : "run",
                    victim ? (int) victim->get_scheduler()->get_state(i).load() : -1);
            return s;
        };
        int mode = 0x001 | 0x004 | 0x008 | 0x010 | 0x080;    // default_mode
        if (elastic) mode |= 0x002;
        pk::start_with_pools(ctx, {pk::PoolSpec{"victim", vpol, g_nv, mode}});
        victim = &pika::resource::get_thread_pool("victim");
        suspended.assign((size_t) g_nv, 0);
        sepoch.assign((size_t) g_nv, 0);
        repoch.assign((size_t) g_nv, 0);
        susp_inflight.assign((size_t) g_nv, 0);
        race_inflight.assign((size_t) g_nv, 0);
        entries.reserve(4096);
        static Parties P;
        std::vector<int> kinds;
        for (int i = 0; i < nparties; i++) kinds.push_back((os_mask >> i) & 1 ? PARTY_OS : PARTY_TASK);
        Program const& prog = ctx.program;
        P.launch(kinds, [&prog, kinds](int i) { run_party(prog, i, kinds[(size_t) i] == PARTY_OS); });
        while (!P.all_finished()) main_pause(4000000, 600000);
        sim_quiesce(4000000);
        P.join_os();
        // resume everything that the model says is suspended, then all work must drain
        if (g_pool_suspended)
        {
            g_pool_suspended = false;
            for (auto& s : suspended) s = 0;
            victim->resume_direct();
        }
        for (int i = 0; i < g_nv; i++)
            if (suspended[(size_t) i])
            {
                suspended[(size_t) i] = 0;
                victim->resume_processing_unit_direct((std::size_t) i);
            }
        pika::wait();
        VH_CHECK(g_entered == g_submitted && g_finished == g_submitted, "C19.lost_work", "%d tasks submitted, %d entered, %d finished",
            g_submitted, g_entered, g_finished);
        for (size_t t = 0; t < entries.size(); t++)
            VH_CHECK(entries[t] == 1, "C19.lost_work", "task %zu ran %d times", t, entries[t]);
        // every worker of the victim pool still executes work
        for (int i = 0; i < g_nv; i++)
        {
            auto st = victim->get_scheduler()->get_state((std::size_t) i).load();
            VH_CHECK(st == pika::runtime_state::running, "C19.worker_not_running", "worker %d of the victim pool is in state %d at the end",
                i, (int) st);
        }
        probe("tasks", (uint64_t) g_submitted);
        focus_report();
        pk::stop();
    }

    void run_elastic(RunCtx& c) { run_susp(c, true); }
    void run_rigid(RunCtx& c) { run_susp(c, false); }

    Registrar r1(Workload{"C19", "elastic", 80, run_elastic, pk::preload});
    Registrar r2(Workload{"C19", "no_elasticity", 20, run_rigid, pk::preload});

}    // namespace
