// C04 — async_rw_mutex: exclusive writers, grouped readers, request-order grants. (no runtime)
#include "common.hpp"
#include "opholder.hpp"

#include <pika/execution.hpp>
#include <pika/execution/async_rw_mutex.hpp>

#include <memory>
#include <optional>
#include <thread>
#include <vector>

using namespace vh;
namespace ex = pika::execution::experimental;

namespace {

    std::vector<std::string> const c04_focus = {"async_rw_mutex_shared_state_base", "add_op_state",
        "async_rw_mutex", "_Sp_counted_base", "operation_state"};
    struct FocusInit
    {
        FocusInit()
        {
            for (auto& s : c04_focus) focus_patterns().push_back(s);
        }
    } focus_init;

    // op = [kind (0 read, 1 readwrite), starter thread, start delay, action, copies, release thread, release delay]
    enum
    {
        ACT_START = 0,
        ACT_DROP = 1,          // the sender is destroyed unstarted (its destructor starts it detached)
        ACT_COPY_SENDER = 2,   // read senders only: copy, start both
        ACT_RELEASE_INLINE = 3,    // the continuation releases its wrapper at once and, if the next access has been
                                   // started and depends on nothing else, waits inside the continuation for its grant
    };

    struct Val
    {
        int version = 0;
        static int live, destroyed;
        Val() { live++; }
        explicit Val(int v)
          : version(v)
        {
            live++;
        }
        Val(Val const& o)
          : version(o.version)
        {
            live++;
        }
        ~Val()
        {
            live--;
            destroyed++;
            version = -777;
        }
    };
    int Val::live = 0;
    int Val::destroyed = 0;

    struct Req
    {
        int kind = 0, starter = 0, start_delay = 0, action = 0, copies = 0, releaser = 0, release_delay = 0;
        int expected_grants = 1;    // 2 when the sender is copied
        int grants = 0;
        int holders = 0;            // live wrapper copies held by the harness
        bool started = false;
        bool all_released = false;
        uint64_t grant_seq = 0, release_seq = 0;
        int version_at_grant = -1;
        int rw_before = 0;          // number of read-write requests with a smaller index
        bool new_wave = false;      // requested only after all earlier accesses have been released
        int move_kind = 0;          // the mutex object is moved before this request is taken: 1 move-constructed,
                                    // 2-4 move-assigned onto a mutex that was fresh / last gave a read / a read-write
    };
    std::vector<Req> R;
    int g_rw_active = -1;    // index of the read-write access currently held (-1 none)
    int g_readers_active = 0;
    bool g_is_void = false;

    // --- model checks at grant / release ---------------------------------------------------------
    void on_grant(int i, int observed_version)
    {
        AtomicSection atomic;
        Req& r = R[(size_t) i];
        r.grants++;
        VH_CHECK(r.grants <= r.expected_grants, "C04.granted_twice", "access %d granted %d times", i, r.grants);
        // request order: every earlier conflicting access must be completely released
        for (int k = 0; k < i; k++)
        {
            Req& e = R[(size_t) k];
            bool conflict = e.kind == 1 || r.kind == 1;
            if (!conflict) continue;
            if (e.action == ACT_DROP)
            {
                // a dropped sender is started detached by its destructor and the access is released
                // inside the library: all the harness can see is whether the drop has happened
                VH_CHECK(e.started, "C04.order",
                    "access %d granted although the sender of the earlier conflicting access %d is still alive and unstarted", i, k);
                e.all_released = true;
                continue;
            }
            VH_CHECK(e.all_released, "C04.order",
                "access %d (%s) granted while earlier access %d (%s) is not released (grants %d holders %d)", i,
                r.kind ? "readwrite" : "read", k, e.kind ? "readwrite" : "read", e.grants, e.holders);
        }
        if (r.kind == 1)
        {
            VH_CHECK(g_rw_active == -1 && g_readers_active == 0, "C04.overlap",
                "readwrite access %d granted while rw %d / %d readers are active", i, g_rw_active, g_readers_active);
            g_rw_active = i;
        }
        else
        {
            VH_CHECK(g_rw_active == -1, "C04.overlap", "read access %d granted while readwrite %d is active", i, g_rw_active);
            g_readers_active++;
        }
        if (!g_is_void)
            VH_CHECK(observed_version == r.rw_before, "C04.stale_value",
                "access %d observes version %d, expected %d (one increment per earlier read-write access)", i,
                observed_version, r.rw_before);
        r.version_at_grant = observed_version;
        r.grant_seq = sim_seq();
        ev(1, i, r.kind);
    }
    void on_release_one(int i)
    {
        AtomicSection atomic;
        Req& r = R[(size_t) i];
        r.holders--;
        if (r.holders == 0 && r.grants == r.expected_grants)
        {
            r.all_released = true;
            r.release_seq = sim_seq();
            ev(2, i, r.kind);
        }
        if (r.kind == 1)
            g_rw_active = -1;
        else
            g_readers_active--;
    }

    template <typename Mutex, bool IsVoid>
    struct Runner
    {
        using read_w = typename Mutex::read_access_type;
        using rw_w = typename Mutex::readwrite_access_type;
        struct Held
        {
            std::vector<read_w> reads;
            std::optional<rw_w> rw;
        };
        std::vector<Held> held;

        template <bool RW>
        struct Recv
        {
            PIKA_STDEXEC_RECEIVER_CONCEPT
            Runner* self;
            int i;
            using W = std::conditional_t<RW, rw_w, read_w>;
            void set_value(W w) && noexcept
            {
                if (R[(size_t) i].action == ACT_RELEASE_INLINE)
                {
                    release_inline(std::move(w));
                    return;
                }
                AtomicSection atomic;    // receiver = harness bookkeeping
                Runner* s = self;
                int idx = i;
                Req& r = R[(size_t) idx];
                int ver = 0;
                if constexpr (!IsVoid) ver = w.get().version;
                on_grant(idx, ver);
                r.holders++;
                if constexpr (RW)
                {
                    if constexpr (!IsVoid) w.get().version++;    // the modification of this access
                    s->held[(size_t) idx].rw.emplace(std::move(w));
                }
                else
                {
                    // extra copies of the read wrapper, each released separately
                    for (int c = 0; c < r.copies; c++)
                    {
                        s->held[(size_t) idx].reads.push_back(w);
                        r.holders++;
                        g_readers_active++;
                    }
                    s->held[(size_t) idx].reads.push_back(std::move(w));
                }
            }
            // release inside the continuation, then wait there (blocking) for the next access if it only depends on
            // this one: the grant must not need the continuation's caller to unwind first
            void release_inline(W w)
            {
                int idx = i;
                int nxt = -1;
                {
                    AtomicSection atomic;
                    Req& r = R[(size_t) idx];
                    int ver = 0;
                    if constexpr (!IsVoid) ver = w.get().version;
                    on_grant(idx, ver);
                    r.holders++;
                    if constexpr (RW && !IsVoid) w.get().version++;
                    int n = (int) R.size();
                    if (idx + 1 < n && !R[(size_t) idx + 1].new_wave && R[(size_t) idx + 1].action != ACT_DROP &&
                        R[(size_t) idx + 1].started && (R[(size_t) idx + 1].kind == 1 || r.kind == 1))
                    {
                        bool only_me = true;
                        for (int k = 0; k <= idx; k++)
                            if (k != idx && !R[(size_t) k].all_released) only_me = false;
                        if (only_me) nxt = idx + 1;
                    }
                }
                {
                    W victim(std::move(w));
                    on_release_one(idx);
                }    // wrapper destroyed here: library code, may grant the next access inline
                probe("released_inside_continuation");
                if (nxt >= 0)
                {
                    probe("waited_inside_continuation_for_next_access");
                    for (;;)
                    {
                        {
                            AtomicSection atomic;
                            if (R[(size_t) nxt].grants > 0) break;
                        }
                        std::this_thread::yield();
                    }
                }
            }
            void set_error(std::exception_ptr) && noexcept { violation("C04.error", "access %d completed with an error", i); }
            void set_stopped() && noexcept { violation("C04.error", "access %d completed with stopped", i); }
            constexpr ex::empty_env get_env() const& noexcept { return {}; }
        };

        // type-erased pending senders and operation states (harness-owned, freed at the end)
        struct Slot
        {
            std::function<void()> start;    // connects and starts (or drops) the sender(s)
            std::vector<std::shared_ptr<void>> ops;
        };
        std::vector<Slot> slots;

        void release_held(int i)
        {
            Held& h = held[(size_t) i];
            Req& r = R[(size_t) i];
            if (r.kind == 1)
            {
                std::optional<rw_w> victim;
                {
                    AtomicSection atomic;
                    if (!h.rw) return;
                    if constexpr (!IsVoid)
                        VH_CHECK(h.rw->get().version == r.version_at_grant + 1, "C04.value_changed",
                            "value changed under read-write access %d", i);
                    victim.emplace(std::move(*h.rw));
                    h.rw.reset();
                }
                // the release is the start of the wrapper's destruction: the next access may be
                // granted from inside it
                on_release_one(i);
                victim.reset();    // library code: preemptible
            }
            else
            {
                for (;;)
                {
                    std::optional<read_w> victim;
                    {
                        AtomicSection atomic;
                        if (h.reads.empty()) break;
                        if constexpr (!IsVoid)
                            VH_CHECK(h.reads.back().get().version == r.version_at_grant, "C04.value_changed",
                                "value changed while read access %d is held (saw %d, now %d)", i, r.version_at_grant,
                                h.reads.back().get().version);
                        victim.emplace(std::move(h.reads.back()));
                        h.reads.pop_back();
                    }
                    on_release_one(i);
                    victim.reset();
                }
            }
        }

        template <typename... A>
        void run(RunCtx& ctx, int nthreads, bool destroy_mutex_early, A&&... ctor)
        {
            int n = (int) R.size();
            held.resize((size_t) n);
            slots.resize((size_t) n);
            auto mtx = std::make_unique<Mutex>(std::forward<A>(ctor)...);
            // The program is cut into waves: the requests of a wave are taken from the mutex (on this thread, in
            // order) only after every access of the earlier waves has been released, so that requests also meet
            // a mutex whose current state nobody else references any more.
            std::vector<int> wave_start{0};
            for (int i = 1; i < n; i++)
                if (R[(size_t) i].new_wave) wave_start.push_back(i);
            wave_start.push_back(n);
            probe("waves", (uint64_t) wave_start.size() - 1);
            for (size_t w = 0; w + 1 < wave_start.size(); w++)
            {
                int const a = wave_start[w], b = wave_start[w + 1];
                for (int i = a; i < b; i++)
                {
                    Req& r = R[(size_t) i];
                    if (r.move_kind == 1)
                    {
                        // the mutex is an ordinary movable value: the moved-to object continues the request order
                        auto moved = std::make_unique<Mutex>(std::move(*mtx));
                        mtx = std::move(moved);
                        probe("mutex_move_constructed");
                    }
                    else if (r.move_kind >= 2)
                    {
                        std::unique_ptr<Mutex> target;
                        if constexpr (IsVoid)
                            target = std::make_unique<Mutex>();
                        else
                            target = std::make_unique<Mutex>(Val(0));
                        // the target's own history (on its own value): accesses that are granted and released
                        // at once (senders dropped unstarted run detached)
                        if (r.move_kind == 3) { (void) target->readwrite(); (void) target->read(); }
                        if (r.move_kind == 4) { (void) target->read(); (void) target->readwrite(); }
                        *target = std::move(*mtx);
                        mtx = std::move(target);
                        probe("mutex_move_assigned");
                    }
                    if (r.kind == 1)
                    {
                        auto snd = std::make_shared<std::optional<decltype(mtx->readwrite())>>(mtx->readwrite());
                        slots[(size_t) i].start = [this, i, snd] {
                            Req& rq = R[(size_t) i];
                            rq.started = true;
                            if (rq.action == ACT_DROP)
                            {
                                // dropped unstarted: the destructor starts it detached; the access is
                                // granted and released without the harness ever holding a wrapper
                                probe("dropped_unstarted");
                                snd->reset();
                                return;
                            }
                            auto op = make_op(std::move(**snd), Recv<true>{this, i});
                            snd->reset();
                            slots[(size_t) i].ops.push_back(op);
                            op->start();
                        };
                    }
                    else
                    {
                        auto snd = std::make_shared<std::optional<decltype(mtx->read())>>(mtx->read());
                        slots[(size_t) i].start = [this, i, snd] {
                            Req& rq = R[(size_t) i];
                            rq.started = true;
                            if (rq.action == ACT_DROP)
                            {
                                probe("dropped_unstarted");
                                snd->reset();
                                return;
                            }
                            if (rq.action == ACT_COPY_SENDER)
                            {
                                auto copy = **snd;
                                auto op2 = make_op(std::move(copy), Recv<false>{this, i});
                                slots[(size_t) i].ops.push_back(op2);
                                op2->start();
                                probe("sender_copied");
                            }
                            auto op = make_op(std::move(**snd), Recv<false>{this, i});
                            snd->reset();
                            slots[(size_t) i].ops.push_back(op);
                            op->start();
                        };
                    }
                }
                if (w + 2 == wave_start.size())
                {
                    // all requests have been taken: the mutex object may go before the accesses
                    if (!destroy_mutex_early) mtx_keep = std::move(mtx);
                    else
                    {
                        probe("mutex_destroyed_first");
                        mtx.reset();
                    }
                }
                // dropped accesses are modelled as granted+released at the moment the library grants them:
                // they have no receiver, so the model treats them as released once started (they cannot
                // be observed); order checks skip them by marking them released when their turn comes.
                std::vector<std::thread> th;
                for (int t = 0; t < nthreads; t++)
                    th.emplace_back([this, t, a, b] {
                        // phase 1: this thread's start actions, in index order
                        for (int i = a; i < b; i++)
                        {
                            Req& r = R[(size_t) i];
                            if (r.starter != t) continue;
                            for (int y = 0; y < r.start_delay; y++) std::this_thread::yield();
                            slots[(size_t) i].start();
                        }
                        // phase 2: releases assigned to this thread, whenever they become possible
                        for (;;)
                        {
                            bool pending = false;
                            for (int i = a; i < b; i++)
                            {
                                Req& r = R[(size_t) i];
                                bool do_release = false;
                                {
                                    AtomicSection atomic;
                                    if (r.releaser != t || r.all_released || r.action == ACT_DROP) continue;
                                    pending = true;
                                    if (r.grants == r.expected_grants && r.holders > 0)
                                    {
                                        if (r.release_delay > 0)
                                            r.release_delay--;
                                        else
                                            do_release = true;
                                    }
                                }
                                if (do_release) release_held(i);
                            }
                            if (!pending) break;
                            std::this_thread::yield();
                        }
                    });
                for (auto& t : th) t.join();
            }
            sim_quiesce(3000000);
        }
        std::unique_ptr<Mutex> mtx_keep;
    };

    // dropped accesses: mark released as soon as every earlier conflicting access is released and the
    // drop has happened (the library grants and releases them internally)
    void settle_dropped()
    {
        for (size_t i = 0; i < R.size(); i++)
        {
            Req& r = R[i];
            if (r.action != ACT_DROP || r.all_released || !r.started) continue;
            bool ready = true;
            for (size_t k = 0; k < i; k++)
                if ((R[k].kind == 1 || r.kind == 1) && !R[k].all_released) ready = false;
            if (ready)
            {
                r.all_released = true;
                r.grants = r.expected_grants;
            }
        }
    }

    template <bool IsVoid>
    void run_rw(RunCtx& ctx)
    {
        g_is_void = IsVoid;
        Rng r(mix_seed(ctx.seed, 40));
        int nthreads = (int) ctx.params.set("c04.threads", r.range(1, 4));
        bool early = ctx.params.set("c04.destroy_mutex_first", r.chance(1, 2) ? 1 : 0) != 0;
        if (!ctx.program_from_replay)
        {
            Program p;
            int n = (int) r.range(2, 12);
            for (int i = 0; i < n; i++)
            {
                Op op;
                op.v[0] = r.chance(45, 100) ? 1 : 0;
                op.v[1] = (int64_t) r.below((uint64_t) nthreads);
                op.v[2] = r.range(0, 3);
                op.v[3] = r.chance(1, 6) ? ACT_DROP : (r.chance(1, 5) ? ACT_COPY_SENDER : (r.chance(1, 5) ? ACT_RELEASE_INLINE : ACT_START));
                op.v[4] = r.range(0, 2);
                op.v[5] = (int64_t) r.below((uint64_t) nthreads);
                op.v[6] = r.range(0, 4);
                op.v[7] = r.chance(1, 4) ? 1 : 0;    // starts a new wave
                if (r.chance(1, 8)) op.v[7] |= (int64_t) r.range(1, 4) << 1;    // the mutex is moved first
                p.push_back(op);
            }
            ctx.program = p;
        }
        int rw_seen = 0;
        for (auto const& op : ctx.program)
        {
            Req q;
            q.kind = (int) (op.v[0] & 1);
            q.starter = (int) (((op.v[1] % nthreads) + nthreads) % nthreads);
            q.start_delay = (int) (op.v[2] & 3);
            q.action = (int) (((op.v[3] % 4) + 4) % 4);
            if (q.kind == 1 && q.action == ACT_COPY_SENDER) q.action = ACT_START;
            q.copies = q.kind == 0 && q.action != ACT_RELEASE_INLINE ? (int) (op.v[4] % 3) : 0;
            q.releaser = (int) (((op.v[5] % nthreads) + nthreads) % nthreads);
            q.release_delay = (int) (op.v[6] & 7);
            q.expected_grants = q.action == ACT_COPY_SENDER ? 2 : 1;
            q.new_wave = (op.v[7] & 1) != 0;
            q.move_kind = (int) ((op.v[7] >> 1) & 7);
            if (q.move_kind > 4) q.move_kind = 0;
            q.rw_before = rw_seen;
            // a dropped read-write access does not modify the value
            if (q.kind == 1 && q.action != ACT_DROP) rw_seen++;
            R.push_back(q);
        }
        sim_config sc = draw_sim_config(ctx, 6000, FAULT_STALL);
        begin_sim(ctx, sc);
        focus_select(ctx, c04_focus, 2);
        g_dump_hook = +[]() -> std::string {
            std::string s = "rw_mutex model:";
            for (size_t i = 0; i < R.size(); i++)
                s += sfmt(" [%zu %s act%d started=%d grants=%d/%d holders=%d released=%d]", i, R[i].kind ? "rw" : "r",
                    R[i].action, (int) R[i].started, R[i].grants, R[i].expected_grants, R[i].holders, (int) R[i].all_released);
            return s;
        };
        if constexpr (IsVoid)
        {
            static Runner<ex::async_rw_mutex<void>, true> run;
            run.run(ctx, nthreads, early);
        }
        else
        {
            static Runner<ex::async_rw_mutex<Val>, false> run;
            run.run(ctx, nthreads, early, Val(0));
            (void) run;
        }
        if constexpr (!IsVoid)
            VH_CHECK(Val::live == (early ? 0 : 1), "C04.value_lifetime",
                "%d instances of the wrapped value alive after all accesses were released (mutex %s)", Val::live,
                early ? "destroyed first" : "still alive");
        for (size_t i = 0; i < R.size(); i++)
        {
            Req& q = R[i];
            if (q.action == ACT_DROP) continue;
            VH_CHECK(q.grants == q.expected_grants, "C04.not_granted", "access %zu granted %d of %d times", i, q.grants,
                q.expected_grants);
            VH_CHECK(q.all_released, "C04.harness", "access %zu not released", i);
        }
        probe(IsVoid ? "void_mutex" : "value_mutex");
        focus_report();
    }

    void run_value(RunCtx& c) { run_rw<false>(c); }
    void run_void(RunCtx& c) { run_rw<true>(c); }

    Registrar r1(Workload{"C04", "value", 70, run_value, nullptr});
    Registrar r2(Workload{"C04", "void", 30, run_void, nullptr});

}    // namespace
