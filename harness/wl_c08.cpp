// C08 — semaphores conserve permits and release blocked acquirers.
#include "parties.hpp"

#include <pika/semaphore.hpp>
#include <pika/synchronization/sliding_semaphore.hpp>

#include <limits>

#include <chrono>

using namespace vh;

namespace {

    std::vector<std::string> const c08_focus = {"counting_semaphore", "sliding_semaphore", "condition_variable::wait", "condition_variable::notify_one", "execution_agent::do_yield", "set_thread_state", "default_agent"};
    struct FocusInit
    {
        FocusInit()
        {
            for (auto& s : c08_focus) focus_patterns().push_back(s);
        }
    } focus_init;


    enum
    {
        OP_RELEASE = 1,      // a = n
        OP_ACQUIRE = 2,
        OP_TRY = 3,
        OP_TRY_FOR = 4,      // a = microseconds
        OP_TRY_UNTIL = 5,    // a = microseconds from now
        OP_YIELD = 6,        // a = times
        OP_HOLD = 7,         // acquire; yield a times; release
        OP_TRY_HOLD = 8,
        OP_TIMED_HOLD = 9,    // a = us, b = yields
    };
    enum
    {
        EV_REL_INV = 1,
        EV_REL_RET,
        EV_ACQ_INV,
        EV_ACQ_RET,
        EV_TRY_RET,
    };

    struct State
    {
        int64_t initial = 0;
        int64_t rel_inv = 0;    // permits whose release() has been invoked
        int64_t rel_ret = 0;    // permits whose release() has returned
        int64_t acq = 0;        // permits consumed (successful acquisitions returned)
        int blocked = 0;        // parties inside a blocking acquire
        int holders = 0;        // binary: parties between acquire and release
    };
    State S;

    void yield_here(int kind, int times)
    {
        for (int i = 0; i < times; i++)
        {
            if (kind == PARTY_OS)
                std::this_thread::yield();
            else
                pika::this_thread::yield();
        }
    }

    void check_conservation(char const* where)
    {
        VH_CHECK(S.acq <= S.initial + S.rel_inv, "C08.conservation",
            "%s: %lld successful acquisitions > initial %lld + released %lld", where,
            (long long) S.acq, (long long) S.initial, (long long) S.rel_inv);
    }

    template <typename Sem>
    void run_party(Sem& sem, Program const& prog, int me, int kind, bool binary)
    {
        for (auto const& op : prog)
        {
            if (op.v[0] != me) continue;
            int64_t a = op.v[2], b = op.v[3];
            switch (op.v[1])
            {
            case OP_RELEASE:
                if (binary) break;
                S.rel_inv += a;
                ev(EV_REL_INV, me, a);
                sem.release(a);
                S.rel_ret += a;
                ev(EV_REL_RET, me, a);
                break;
            case OP_ACQUIRE:
                if (binary) break;
                S.blocked++;
                ev(EV_ACQ_INV, me);
                sem.acquire();
                S.blocked--;
                S.acq++;
                ev(EV_ACQ_RET, me);
                check_conservation("acquire");
                break;
            case OP_TRY:
                if (binary) break;
                if (sem.try_acquire())
                {
                    S.acq++;
                    probe("try_acquire.true");
                    check_conservation("try_acquire");
                }
                ev(EV_TRY_RET, me);
                break;
            case OP_TRY_FOR:
            case OP_TRY_UNTIL:
            {
                if (binary) break;
                if (kind == PARTY_OS) break;    // timed waits on OS threads: known-finding sub-workload
                bool r = op.v[1] == OP_TRY_FOR ?
                    sem.try_acquire_for(std::chrono::microseconds(a)) :
                    sem.try_acquire_until(
                        std::chrono::steady_clock::now() + std::chrono::microseconds(a));
                if (r)
                {
                    S.acq++;
                    probe("timed_acquire.true");
                    check_conservation("timed acquire");
                }
                else
                    probe("timed_acquire.false");
                ev(EV_TRY_RET, me, r);
                break;
            }
            case OP_YIELD:
                yield_here(kind, (int) a);
                break;
            case OP_HOLD:
            case OP_TRY_HOLD:
            case OP_TIMED_HOLD:
            {
                if (!binary) break;
                bool got = true;
                if (op.v[1] == OP_HOLD)
                {
                    S.blocked++;
                    sem.acquire();
                    S.blocked--;
                }
                else if (op.v[1] == OP_TRY_HOLD)
                    got = sem.try_acquire();
                else
                {
                    if (kind == PARTY_OS) break;
                    got = sem.try_acquire_for(std::chrono::microseconds(a));
                    probe(got ? "timed_acquire.true" : "timed_acquire.false");
                }
                if (!got) break;
                S.acq++;
                check_conservation("hold");
                S.holders++;
                VH_CHECK(S.holders <= 1, "C08.binary.overlap",
                    "binary semaphore (initial 1) held by %d parties at once", S.holders);
                yield_here(kind, (int) (op.v[1] == OP_TIMED_HOLD ? b : a));
                VH_CHECK(S.holders == 1, "C08.binary.overlap", "holder count %d inside the section",
                    S.holders);
                S.holders--;
                S.rel_inv++;
                sem.release();
                S.rel_ret++;
                break;
            }
            default:
                break;
            }
        }
    }

    Program gen_counting(RunCtx& ctx, int nparties, bool binary)
    {
        Rng r(mix_seed(ctx.seed, 31));
        Program p;
        int nops = (int) r.range(3, ctx.thorough ? 40 : 24);
        for (int i = 0; i < nops; i++)
        {
            Op op;
            op.v[0] = (int64_t) r.below((uint64_t) nparties);
            if (binary)
            {
                uint64_t x = r.below(100);
                op.v[1] = x < 55 ? OP_HOLD : x < 70 ? OP_TRY_HOLD : x < 90 ? OP_TIMED_HOLD : OP_YIELD;
                op.v[2] = op.v[1] == OP_TIMED_HOLD ? (int64_t) r.logu(1, 400) : r.range(0, 3);
                op.v[3] = r.range(0, 3);
            }
            else
            {
                uint64_t x = r.below(100);
                op.v[1] = x < 30 ? OP_RELEASE :
                    x < 55      ? OP_ACQUIRE :
                    x < 65      ? OP_TRY :
                    x < 78      ? OP_TRY_FOR :
                    x < 88      ? OP_TRY_UNTIL :
                                  OP_YIELD;
                if (op.v[1] == OP_RELEASE)
                    op.v[2] = r.range(1, 3);
                else if (op.v[1] == OP_TRY_FOR || op.v[1] == OP_TRY_UNTIL)
                    op.v[2] = (int64_t) r.logu(1, 500);
                else
                    op.v[2] = r.range(1, 3);
            }
            p.push_back(op);
        }
        return p;
    }

    template <typename Sem>
    void run_counting(RunCtx& ctx, bool binary)
    {
        pk::draw_runtime(ctx, ctx.thorough ? 8 : 5);
        Rng r(mix_seed(ctx.seed, 30));
        int nparties = (int) ctx.params.set("c08.parties", r.range(2, 6));
        int64_t kinds_mask = ctx.params.set("c08.os_mask", r.chance(1, 2) ? (int64_t) r.below(64) : 0);
        S.initial = ctx.params.set("c08.initial", binary ? 1 : r.range(0, 3));
        if (!ctx.program_from_replay) ctx.program = gen_counting(ctx, nparties, binary);
        sim_config sc = draw_sim_config(ctx, 60000, FAULT_STALL | FAULT_CLOCKJUMP | FAULT_TRYFAIL | FAULT_SPURIOUS);
        begin_sim(ctx, sc);
        focus_select(ctx, c08_focus, 3);
        g_dump_hook = +[]() -> std::string {
            return pk::dump() +
                sfmt(" | sem model: initial=%lld released=%lld acquired=%lld blocked=%d",
                    (long long) S.initial, (long long) S.rel_ret, (long long) S.acq, S.blocked);
        };
        pk::start(ctx);
        static Sem sem((std::ptrdiff_t) S.initial);
        static Parties P;
        std::vector<int> kinds;
        for (int i = 0; i < nparties; i++) kinds.push_back((kinds_mask >> i) & 1 ? PARTY_OS : PARTY_TASK);
        Program const& prog = ctx.program;
        P.launch(kinds, [&prog, kinds, binary](int i) {
            run_party(sem, prog, i, kinds[(size_t) i], binary);
        });
        // Quiescence: faults stop, fair schedule. Top up permits only when the model says none is
        // available and every unfinished party is blocked in acquire(); with a permit available a
        // blocked acquirer has to proceed on its own.
        int64_t topups = 0;
        while (!P.all_finished())
        {
            int running = P.n - P.nfinished;
            int64_t avail = S.initial + S.rel_ret - S.acq;
            if (S.blocked == running && avail <= 0 && S.rel_inv == S.rel_ret)
            {
                S.rel_inv++;
                sem.release(1);
                S.rel_ret++;
                topups++;
            }
            main_pause();
        }
        P.join_os();
        sim_quiesce(2000000);
        probe("topups", (uint64_t) topups);
        // no permit lost, none invented: drain
        int64_t expect = S.initial + S.rel_ret - S.acq;
        int64_t drained = 0;
        while (drained <= expect + 4 && sem.try_acquire()) drained++;
        VH_CHECK(drained == expect, "C08.permit_count",
            "after quiescence %lld permits can be drained, model says %lld (initial %lld + released "
            "%lld - acquired %lld)",
            (long long) drained, (long long) expect, (long long) S.initial, (long long) S.rel_ret,
            (long long) S.acq);
        pk::stop();
    }

    void run_count(RunCtx& ctx) { run_counting<pika::counting_semaphore<>>(ctx, false); }
    void run_binary(RunCtx& ctx) { run_counting<pika::binary_semaphore<>>(ctx, true); }

    // ---- strong timed claim: sole timed acquirer, release returned strictly before the deadline
    void run_timed(RunCtx& ctx, bool os_waiter)
    {
        pk::draw_runtime(ctx, 4);
        Rng r(mix_seed(ctx.seed, 32));
        int64_t dl_us = ctx.params.set("c08.deadline_us", (int64_t) r.logu(20, 2000));
        int64_t rel_yields = ctx.params.set("c08.release_after_yields", r.range(0, 12));
        int64_t rel_os = ctx.params.set("c08.releaser_os", r.chance(1, 3) ? 1 : 0);
        sim_config sc = draw_sim_config(ctx, 40000, FAULT_STALL | FAULT_CLOCKJUMP);
        begin_sim(ctx, sc);
        focus_select(ctx, c08_focus, 3);
        g_dump_hook = pk::dump;
        pk::start(ctx);
        static pika::counting_semaphore<> sem(0);
        static uint64_t deadline_ns = 0, rel_ret_ns = 0;
        static int result = -1;
        static bool rel_done = false;
        static Parties P;
        P.launch({os_waiter ? PARTY_OS : PARTY_TASK, rel_os ? PARTY_OS : PARTY_TASK},
            [dl_us, rel_yields, rel_os](int i) {
                if (i == 0)
                {
                    auto dl = std::chrono::steady_clock::now() + std::chrono::microseconds(dl_us);
                    deadline_ns = (uint64_t) std::chrono::duration_cast<std::chrono::nanoseconds>(
                        dl.time_since_epoch())
                                      .count();
                    ev(EV_ACQ_INV, 0, (int64_t) deadline_ns);
                    bool ok = sem.try_acquire_until(dl);
                    result = ok ? 1 : 0;
                    ev(EV_TRY_RET, 0, ok);
                }
                else
                {
                    yield_here(rel_os ? PARTY_OS : PARTY_TASK, (int) rel_yields);
                    sem.release();
                    rel_ret_ns = sim_now_ns();
                    rel_done = true;
                    ev(EV_REL_RET, 1, (int64_t) rel_ret_ns);
                }
            });
        while (!P.all_finished()) main_pause();
        P.join_os();
        sim_quiesce(2000000);
        bool before = deadline_ns != 0 && rel_ret_ns < deadline_ns;
        probe(before ? "release_before_deadline" : "release_after_deadline");
        if (before)
            VH_CHECK(result == 1, "C08.timed_false_despite_release",
                "try_acquire_until returned false although release() returned at %llu ns, before the "
                "deadline %llu ns",
                (unsigned long long) rel_ret_ns, (unsigned long long) deadline_ns);
        int64_t drained = 0;
        while (drained < 4 && sem.try_acquire()) drained++;
        VH_CHECK(drained == (result == 1 ? 0 : 1), "C08.permit_count",
            "timed acquire returned %d but %lld permits remain of 1 released", result,
            (long long) drained);
        pk::stop();
    }
    void run_timed_task(RunCtx& ctx) { run_timed(ctx, false); }
    void run_timed_os(RunCtx& ctx) { run_timed(ctx, true); }

    // ---- sliding semaphore
    void run_sliding(RunCtx& ctx)
    {
        pk::draw_runtime(ctx, 5);
        Rng r(mix_seed(ctx.seed, 33));
        // one run in five: an "unlimited" window (max_difference at or near INT64_MAX)
        bool huge = r.chance(1, 5);
        int64_t maxdiff = ctx.params.set("c08.max_diff",
            huge ? (r.chance(1, 2) ? std::numeric_limits<int64_t>::max() : std::numeric_limits<int64_t>::max() - 100) : r.range(1, 4));
        huge = maxdiff > 1000;
        if (huge) probe("sliding.huge_window");
        int nw = (int) ctx.params.set("c08.waiters", r.range(1, 5));
        int64_t os_mask = ctx.params.set("c08.os_mask", r.chance(1, 2) ? (int64_t) r.below(32) : 0);
        // program: op = [party, kind(1 wait,2 try_wait,3 signal), value, yields]
        if (!ctx.program_from_replay)
        {
            Program p;
            int nops = (int) r.range(2, 16);
            for (int i = 0; i < nops; i++)
            {
                Op op;
                op.v[0] = (int64_t) r.below((uint64_t) nw + 1);    // party nw = signaller
                // (signaller: signal, or - not with a huge window - widen the window: set_max_difference + signal_all)
                op.v[1] = op.v[0] == nw ? (!huge && r.chance(1, 5) ? 4 : 3) : (r.chance(3, 4) ? 1 : 2);
                op.v[2] = r.range(0, 12);
                // with a huge window small upper limits never block: half of the waits ask for max_difference + k
                if (huge && op.v[1] != 3 && maxdiff < std::numeric_limits<int64_t>::max() && r.chance(1, 2)) op.v[2] += maxdiff;
                op.v[3] = r.range(0, 3);
                p.push_back(op);
            }
            ctx.program = p;
        }
        sim_config sc = draw_sim_config(ctx, 50000, FAULT_STALL);
        begin_sim(ctx, sc);
        focus_select(ctx, c08_focus, 3);
        g_dump_hook = pk::dump;
        pk::start(ctx);
        static pika::sliding_semaphore sem(maxdiff, 0);
        static int64_t lower_inv = 0;    // max lower limit whose signal() was invoked
        static int64_t lower_ret = 0;    // max lower limit whose signal() has returned
        // the window may be widened during the run: md_hi is raised before set_max_difference is called, md_lo after
        // the following signal_all has returned (a waiter may rely on md_hi, must be served according to md_lo)
        static int64_t md_hi = maxdiff, md_lo = maxdiff;
        static int blocked = 0;
        static int64_t min_blocked_upper = 0;
        static std::vector<int64_t> waiting_upper;
        waiting_upper.assign((size_t) nw + 1, -1);
        static Parties P;
        std::vector<int> kinds;
        for (int i = 0; i <= nw; i++) kinds.push_back((os_mask >> i) & 1 ? PARTY_OS : PARTY_TASK);
        Program const& prog = ctx.program;
        P.launch(kinds, [&prog, kinds](int me) {
            for (auto const& op : prog)
            {
                if (op.v[0] != me) continue;
                int64_t v = op.v[2];
                yield_here(kinds[(size_t) me], (int) op.v[3]);
                if (op.v[1] == 1)
                {
                    waiting_upper[(size_t) me] = v;
                    blocked++;
                    sem.wait(v);
                    blocked--;
                    waiting_upper[(size_t) me] = -1;
                    // may only return once a signalled lower bound is within distance
                    VH_CHECK(v - md_hi <= lower_inv, "C08.sliding.early",
                        "wait(%lld) returned with max_difference %lld while the largest signalled "
                        "lower limit is %lld",
                        (long long) v, (long long) md_hi, (long long) lower_inv);
                    probe("sliding.wait_returned");
                }
                else if (op.v[1] == 2)
                {
                    int64_t const md_lo_before = md_lo, lower_ret_before = lower_ret;
                    bool ok = sem.try_wait(v);
                    if (ok)
                        VH_CHECK(v - md_hi <= lower_inv, "C08.sliding.early",
                            "try_wait(%lld) true with max_difference %lld, lower limit %lld",
                            (long long) v, (long long) md_hi, (long long) lower_inv);
                    else
                        VH_CHECK(v - md_lo_before > lower_ret_before, "C08.sliding.try_false",
                            "try_wait(%lld) false although signal(%lld) had returned (max_difference "
                            "%lld)",
                            (long long) v, (long long) lower_ret_before, (long long) md_lo_before);
                }
                else if (op.v[1] == 3)
                {
                    if (v > lower_inv) lower_inv = v;
                    sem.signal(v);
                    if (v > lower_ret) lower_ret = v;
                }
                else if (op.v[1] == 4)
                {
                    // only this party and main (while this party is blocked or finished: never now) signal: the lower
                    // limit known here is exact, set_max_difference is given it back unchanged
                    int64_t const wider = md_hi + 1 + (v & 3);
                    md_hi = wider;
                    sem.set_max_difference(wider, lower_ret);
                    int64_t const reported = sem.signal_all();    // waiters re-evaluate against the wider window
                    VH_CHECK(reported == lower_ret, "C08.sliding.lower_limit", "signal_all() reports lower limit %lld, it is %lld",
                        (long long) reported, (long long) lower_ret);
                    md_lo = wider;
                    probe("sliding.window_widened");
                }
            }
        });
        while (!P.all_finished())
        {
            // every unfinished party blocked: those within distance of the returned lower limit
            // have to proceed on their own; otherwise main raises the lower limit just enough
            int running = P.n - P.nfinished;
            if (blocked == running)
            {
                int64_t need = -1;
                bool someone_due = false;
                for (int64_t u : waiting_upper)
                {
                    if (u < 0) continue;
                    if (u - md_lo <= lower_ret)
                        someone_due = true;
                    else if (need < 0 || u - md_lo < need)
                        need = u - md_lo;
                }
                if (!someone_due && need >= 0 && lower_inv == lower_ret)
                {
                    if (need > lower_inv) lower_inv = need;
                    sem.signal(need);
                    if (need > lower_ret) lower_ret = need;
                    probe("sliding.topup");
                }
            }
            main_pause();
        }
        P.join_os();
        sim_quiesce(2000000);
        (void) min_blocked_upper;
        pk::stop();
    }

    Registrar r1(Workload{"C08", "count", 50, run_count, pk::preload});
    Registrar r2(Workload{"C08", "binary", 15, run_binary, pk::preload});
    Registrar r3(Workload{"C08", "timed", 20, run_timed_task, pk::preload});
    Registrar r4(Workload{"C08", "sliding", 15, run_sliding, pk::preload});
    // known finding (shared root cause with C07): timed wait on a plain OS thread
    Registrar r5(Workload{"C08", "kf_timed_os", 0, run_timed_os, pk::preload});

}    // namespace
