// Batch runner: ASLR off, W zygote workers, one forked child per simulated run.
#include "common.hpp"

#include <cerrno>
#include <csignal>
#include <cstdlib>
#include <fcntl.h>
#include <poll.h>
#include <string>
#include <sys/mman.h>
#include <sys/personality.h>
#include <sys/prctl.h>
#include <sys/stat.h>
#include <sys/wait.h>
#include <time.h>
#include <unistd.h>
#include <vector>

using namespace vh;

namespace {

    struct Args
    {
        char prop[32] = "";
        char sub[64] = "";
        uint64_t seed_start = 1;
        uint64_t count = 1;
        int jobs = 16;
        char out[512] = "/dev/stdout";
        char tier[16] = "quick";
        char replay[512] = "";
        bool record = false;
        bool emit_program = false;
        int wall_cap = 60;
        char tmpdir[256] = "/verif/build/tmp";    // overridden by --tmpdir
        bool list = false;
    };

    double now_s()
    {
        struct timespec ts;
        clock_gettime(CLOCK_MONOTONIC, &ts);
        return (double) ts.tv_sec + 1e-9 * (double) ts.tv_nsec;
    }

    // replay data lives in static storage: nothing here may touch the heap before fork
    struct Replay
    {
        bool present = false;
        uint64_t seed = 0;
        char sub[64] = "";
        struct KV
        {
            char k[64];
            int64_t v;
        };
        KV params[512];
        int nparams = 0;
        Op ops[8192];
        int nops = 0;
        bool have_program = false;
        sim_decision script[1 << 20];
        size_t nscript = 0;
        bool have_script = false;
    };
    Replay g_rp;

    bool load_replay(char const* path, Replay& r)
    {
        int fd = open(path, O_RDONLY);
        if (fd < 0) return false;
        struct stat sb;
        if (fstat(fd, &sb) != 0) return false;
        size_t len = (size_t) sb.st_size;
        char* buf = (char*) mmap(nullptr, len + 1, PROT_READ | PROT_WRITE, MAP_PRIVATE, fd, 0);
        close(fd);
        if (buf == MAP_FAILED) return false;
        char* p = buf;
        char* endp = buf + len;
        while (p < endp)
        {
            char* nl = (char*) memchr(p, '\n', (size_t) (endp - p));
            if (!nl) nl = endp;
            char saved = *nl;
            *nl = 0;
            char key[64];
            int off = 0;
            if (sscanf(p, "%63s %n", key, &off) >= 1)
            {
                char* rest = p + off;
                if (!strcmp(key, "seed"))
                    r.seed = strtoull(rest, nullptr, 10);
                else if (!strcmp(key, "sub"))
                    sscanf(rest, "%63s", r.sub);
                else if (!strcmp(key, "param"))
                {
                    long long v;
                    if (r.nparams < 512 && sscanf(rest, "%63s %lld", r.params[r.nparams].k, &v) == 2)
                        r.params[r.nparams++].v = v;
                }
                else if (!strcmp(key, "program"))
                    r.have_program = true;
                else if (!strcmp(key, "op"))
                {
                    long long v[8] = {0, 0, 0, 0, 0, 0, 0, 0};
                    sscanf(rest, "%lld %lld %lld %lld %lld %lld %lld %lld", &v[0], &v[1], &v[2],
                        &v[3], &v[4], &v[5], &v[6], &v[7]);
                    if (r.nops < 8192)
                    {
                        for (int i = 0; i < 8; i++) r.ops[r.nops].v[i] = v[i];
                        r.nops++;
                    }
                    r.have_program = true;
                }
                else if (!strcmp(key, "script"))
                    r.have_script = true;
                else if (!strcmp(key, "dec"))
                {
                    unsigned tid, kind;
                    unsigned long long n, arg;
                    if (r.nscript < (1u << 20) &&
                        sscanf(rest, "%u %u %llu %llu", &tid, &kind, &n, &arg) == 4)
                    {
                        r.script[r.nscript++] = sim_decision{tid, kind, n, arg};
                        r.have_script = true;
                    }
                }
            }
            *nl = saved;
            p = nl + 1;
        }
        munmap(buf, len + 1);
        r.present = true;
        // sort the script by (tid, n, kind) — heap sort free: simple shell sort in place
        for (size_t gap = r.nscript / 2; gap > 0; gap /= 2)
            for (size_t i = gap; i < r.nscript; i++)
            {
                sim_decision t = r.script[i];
                size_t j = i;
                auto gt = [](sim_decision const& a, sim_decision const& b) {
                    return a.tid != b.tid ? a.tid > b.tid : a.n != b.n ? a.n > b.n : a.kind > b.kind;
                };
                while (j >= gap && gt(r.script[j - gap], t))
                {
                    r.script[j] = r.script[j - gap];
                    j -= gap;
                }
                r.script[j] = t;
            }
        return true;
    }

    Workload const* select_workload(char const* prop, uint64_t seed, char const* sub)
    {
        Workload const* c[64];
        int nc = 0;
        int total = 0;
        for (auto& w : workloads())
        {
            if (strcmp(prop, w.prop) != 0) continue;
            if (sub[0])
            {
                if (!strcmp(sub, w.name)) return &w;
                continue;
            }
            if (w.weight <= 0) continue;
            if (nc < 64) c[nc++] = &w;
            total += w.weight;
        }
        if (nc == 0) return nullptr;
        int64_t x = (int64_t) (mix_seed(seed, 1) % (uint64_t) total);
        for (int i = 0; i < nc; i++)
        {
            x -= c[i]->weight;
            if (x < 0) return c[i];
        }
        return c[nc - 1];
    }

    [[noreturn]] void child_run(Args const& a, uint64_t seed, int out_fd, Replay const* rp)
    {
        prctl(PR_SET_PDEATHSIG, SIGKILL);
        static RunCtx ctx;
        ctx.seed = seed;
        ctx.thorough = !strcmp(a.tier, "thorough");
        ctx.out_fd = out_fd;
        ctx.prop = a.prop;
        ctx.record = a.record;
        char const* sub = a.sub;
        if (rp && rp->present)
        {
            if (rp->sub[0]) sub = rp->sub;
            for (int i = 0; i < rp->nparams; i++) ctx.params.force(rp->params[i].k, rp->params[i].v);
            if (rp->have_program)
            {
                ctx.program.assign(rp->ops, rp->ops + rp->nops);
                ctx.program_from_replay = true;
            }
            if (rp->have_script)
            {
                ctx.script.assign(rp->script, rp->script + rp->nscript);
                ctx.have_script = true;
            }
        }
        Workload const* w = select_workload(a.prop, seed, sub);
        if (!w)
        {
            dprintf(out_fd,
                "{\"prop\":\"%s\",\"seed\":%llu,\"outcome\":\"infra\",\"class\":\"infra\",\"msg\":\"no "
                "workload\"}\n",
                a.prop, (unsigned long long) seed);
            _exit(2);
        }
        ctx.sub = w->name;
        g_ctx = &ctx;
        if (a.emit_program) ctx.params.set("emit_program", 1);
        ctx.params.set("tier", ctx.thorough ? 1 : 0);
        w->run(ctx);
        finish_ok();
    }

    // static buffers: the worker loop must not touch the heap (every child must be forked from
    // an identical address space)
    char g_res[1 << 24];
    char g_tail[1024];

    size_t read_tail(char const* path, char* out, size_t max)
    {
        int fd = open(path, O_RDONLY);
        if (fd < 0) return 0;
        struct stat sb;
        size_t n = 0;
        if (fstat(fd, &sb) == 0)
        {
            off_t start = sb.st_size > (off_t) max ? sb.st_size - (off_t) max : 0;
            lseek(fd, start, SEEK_SET);
            ssize_t r;
            while (n < max && (r = read(fd, out + n, max - n)) > 0) n += (size_t) r;
        }
        close(fd);
        for (size_t i = 0; i < n; i++)
        {
            unsigned char ch = (unsigned char) out[i];
            if (ch == '"' || ch == '\\' || ch < 0x20 || ch >= 0x7f) out[i] = ' ';
        }
        return n;
    }

    void write_all(int fd, char const* p, size_t n)
    {
        size_t off = 0;
        while (off < n)
        {
            ssize_t w = write(fd, p + off, n - off);
            if (w <= 0) break;
            off += (size_t) w;
        }
    }

    // run one seed in a forked child; append exactly one result line to out_fd
    void run_one(Args const& a, uint64_t seed, int out_fd, char const* errpath, Replay const* rp)
    {
        int pfd[2];
        if (pipe(pfd) != 0) return;
        pid_t pid = fork();
        if (pid == 0)
        {
            close(pfd[0]);
            int efd = open(errpath, O_WRONLY | O_CREAT | O_TRUNC, 0644);
            if (efd >= 0)
            {
                dup2(efd, 2);
                close(efd);
            }
            child_run(a, seed, pfd[1], rp);
        }
        close(pfd[1]);
        size_t len = 0;
        size_t const cap = sizeof(g_res) - 2048;
        double t0 = now_s();
        bool timed_out = false;
        for (;;)
        {
            double left = a.wall_cap - (now_s() - t0);
            if (left <= 0)
            {
                timed_out = true;
                break;
            }
            struct pollfd p = {pfd[0], POLLIN, 0};
            int pr = poll(&p, 1, (int) (left * 1000) + 1);
            if (pr < 0)
            {
                if (errno == EINTR) continue;
                break;
            }
            if (pr == 0) continue;
            if (len >= cap)
            {
                char junk[4096];
                if (read(pfd[0], junk, sizeof(junk)) <= 0) break;
                continue;
            }
            ssize_t n = read(pfd[0], g_res + len, cap - len);
            if (n <= 0) break;
            len += (size_t) n;
        }
        close(pfd[0]);
        if (timed_out) kill(pid, SIGKILL);
        int status = 0;
        waitpid(pid, &status, 0);
        double wall = now_s() - t0;
        bool have_line = len > 2 && g_res[len - 1] == '\n' && g_res[0] == '{' && g_res[len - 2] == '}';
        if (!have_line)
        {
            size_t tn = read_tail(errpath, g_tail, sizeof(g_tail) - 1);
            g_tail[tn] = 0;
            char const* outcome = timed_out ? "wall" : "crash";
            char msg[128];
            if (timed_out)
                snprintf(msg, sizeof(msg), "wall-clock cap exceeded");
            else if (WIFSIGNALED(status))
                snprintf(msg, sizeof(msg), "killed by signal %d", WTERMSIG(status));
            else
                snprintf(msg, sizeof(msg), "exit status %d without result", WEXITSTATUS(status));
            len = (size_t) snprintf(g_res, sizeof(g_res),
                "{\"prop\":\"%s\",\"sub\":\"%s\",\"seed\":%llu,\"outcome\":\"%s\",\"class\":\"%s\","
                "\"msg\":\"%s | stderr: %s\"}\n",
                a.prop, a.sub, (unsigned long long) seed, outcome, outcome, msg, g_tail);
        }
        // splice wall time into the line
        len -= 2;    // drop "}\n"
        len += (size_t) snprintf(g_res + len, 64, ",\"wall_ms\":%.2f}\n", wall * 1000.0);
        write_all(out_fd, g_res, len);
    }

    void copy_arg(char* dst, size_t cap, char const* src)
    {
        snprintf(dst, cap, "%s", src);
    }

}    // namespace

namespace vh {
    std::vector<std::string>& focus_patterns()
    {
        static std::vector<std::string> v;
        return v;
    }
}    // namespace vh

// Re-exec with ASLR off and a canonical argv/environment, so that the initial stack and the heap
// are identical whatever the command line and environment of the caller were.
static void normalise_process(int argc, char** argv)
{
    if (getenv("VH_ARGS")) return;
    int pers = personality(0xffffffff);
    if (pers == -1 || personality(pers | ADDR_NO_RANDOMIZE) == -1)
    {
        fprintf(stderr, "runner: cannot disable ASLR\n");
        _exit(2);
    }
    static char packed[16384];
    size_t off = (size_t) snprintf(packed, sizeof(packed), "VH_ARGS=");
    for (int i = 1; i < argc; i++)
    {
        // paths become absolute: the re-exec'd process runs in "/" (pika looks for ini files in the
        // current directory, so the cwd would otherwise be an input of the address space)
        static char absbuf[4096];
        bool is_path = i > 1 &&
            (!strcmp(argv[i - 1], "--out") || !strcmp(argv[i - 1], "--replay-txt") ||
                !strcmp(argv[i - 1], "--tmpdir") || !strcmp(argv[i - 1], "--trace"));
        if (is_path && argv[i][0] != '/')
        {
            char cwd[2048];
            if (getcwd(cwd, sizeof(cwd)))
            {
                snprintf(absbuf, sizeof(absbuf), "%s/%s", cwd, argv[i]);
                argv[i] = absbuf;
            }
        }
        size_t l = strlen(argv[i]);
        if (off + l + 2 >= sizeof(packed) - 1)
        {
            fprintf(stderr, "runner: arguments too long\n");
            _exit(2);
        }
        memcpy(packed + off, argv[i], l);
        off += l;
        packed[off++] = '\x1f';
    }
    while (off < sizeof(packed) - 1) packed[off++] = ' ';
    packed[off] = 0;
    if (chdir("/") != 0) {}
    char arg0[] = "runner";
    char* nargv[] = {arg0, nullptr};
    char* nenv[] = {packed, nullptr};
    execve("/proc/self/exe", nargv, nenv);
    fprintf(stderr, "runner: re-exec failed\n");
    _exit(2);
}

int main(int argc, char** argv)
{
    normalise_process(argc, argv);
    static Args a;
    {
        // unpack VH_ARGS (in place; the environment block is ours)
        char* p = getenv("VH_ARGS");
        static char* av[256];
        int ac = 0;
        while (p && *p && ac < 255)
        {
            char* e = strchr(p, '\x1f');
            if (!e) break;
            *e = 0;
            av[ac++] = p;
            p = e + 1;
        }
        for (int i = 0; i < ac; i++)
        {
            char const* k = av[i];
            auto val = [&]() -> char const* { return i + 1 < ac ? av[++i] : ""; };
            if (!strcmp(k, "--prop"))
                copy_arg(a.prop, sizeof(a.prop), val());
            else if (!strcmp(k, "--sub"))
                copy_arg(a.sub, sizeof(a.sub), val());
            else if (!strcmp(k, "--seed-start"))
                a.seed_start = strtoull(val(), nullptr, 10);
            else if (!strcmp(k, "--count"))
                a.count = strtoull(val(), nullptr, 10);
            else if (!strcmp(k, "--jobs"))
                a.jobs = atoi(val());
            else if (!strcmp(k, "--out"))
                copy_arg(a.out, sizeof(a.out), val());
            else if (!strcmp(k, "--tier"))
                copy_arg(a.tier, sizeof(a.tier), val());
            else if (!strcmp(k, "--replay-txt"))
                copy_arg(a.replay, sizeof(a.replay), val());
            else if (!strcmp(k, "--record"))
                a.record = true;
            else if (!strcmp(k, "--emit-program"))
                a.emit_program = true;
            else if (!strcmp(k, "--wall-cap"))
                a.wall_cap = atoi(val());
            else if (!strcmp(k, "--tmpdir"))
                copy_arg(a.tmpdir, sizeof(a.tmpdir), val());
            else if (!strcmp(k, "--gdb-on-fail"))
                g_gdb_on_fail = true;
            else if (!strcmp(k, "--trace"))
                copy_arg(g_trace_path, sizeof(g_trace_path), val());
            else if (!strcmp(k, "--list"))
                a.list = true;
            else
            {
                fprintf(stderr, "runner: unknown argument %s\n", k);
                return 2;
            }
        }
    }
    if (a.list)
    {
        for (auto& w : workloads()) printf("%s %s %d\n", w.prop, w.name, w.weight);
        return 0;
    }
    if (!a.prop[0])
    {
        fprintf(stderr, "runner: --prop required\n");
        return 2;
    }
    mkdir(a.tmpdir, 0755);

    // zygote preload: everything heavy and deterministic that does not start threads
    {
        void (*done[64])();
        int nd = 0;
        for (auto& w : workloads())
        {
            if (strcmp(a.prop, w.prop) != 0 || !w.preload) continue;
            bool seen = false;
            for (int i = 0; i < nd; i++)
                if (done[i] == w.preload) seen = true;
            if (!seen && nd < 64)
            {
                w.preload();
                done[nd++] = w.preload;
            }
        }
        if (!focus_patterns().empty()) focus_preload(focus_patterns());
    }

    static char errpath[640];
    if (a.replay[0])
    {
        if (!load_replay(a.replay, g_rp))
        {
            fprintf(stderr, "runner: cannot read %s\n", a.replay);
            return 2;
        }
        int ofd = open(a.out, O_WRONLY | O_CREAT | O_APPEND, 0644);
        if (ofd < 0) return 2;
        snprintf(errpath, sizeof(errpath), "%s/err.replay.%d", a.tmpdir, (int) getpid());
        run_one(a, g_rp.seed, ofd, errpath, &g_rp);
        unlink(errpath);
        close(ofd);
        return 0;
    }

    // shared work counter
    auto* counter = (uint64_t*) mmap(
        nullptr, 4096, PROT_READ | PROT_WRITE, MAP_SHARED | MAP_ANONYMOUS, -1, 0);
    if (counter == MAP_FAILED) return 2;
    *counter = 0;
    int jobs = a.jobs < 1 ? 1 : (a.jobs > 64 ? 64 : a.jobs);
    if ((uint64_t) jobs > a.count) jobs = (int) a.count;
    static pid_t workers[64];
    static char part[640];
    pid_t const master = getpid();
    for (int w = 0; w < jobs; w++)
    {
        pid_t pid = fork();
        if (pid == 0)
        {
            prctl(PR_SET_PDEATHSIG, SIGKILL);
            snprintf(part, sizeof(part), "%s/part.%d.%d", a.tmpdir, (int) master, w);
            int ofd = open(part, O_WRONLY | O_CREAT | O_TRUNC, 0644);
            snprintf(errpath, sizeof(errpath), "%s/err.%d.%d", a.tmpdir, (int) master, w);
            for (;;)
            {
                uint64_t i = __atomic_fetch_add(counter, 1, __ATOMIC_SEQ_CST);
                if (i >= a.count) break;
                run_one(a, a.seed_start + i, ofd, errpath, nullptr);
            }
            unlink(errpath);
            close(ofd);
            _exit(0);
        }
        workers[w] = pid;
    }
    for (int w = 0; w < jobs; w++)
    {
        int st;
        waitpid(workers[w], &st, 0);
    }
    int ofd = open(a.out, O_WRONLY | O_CREAT | O_TRUNC, 0644);
    if (ofd < 0)
    {
        fprintf(stderr, "runner: cannot open %s\n", a.out);
        return 2;
    }
    for (int w = 0; w < jobs; w++)
    {
        snprintf(part, sizeof(part), "%s/part.%d.%d", a.tmpdir, (int) master, w);
        int fd = open(part, O_RDONLY);
        if (fd < 0) continue;
        ssize_t n;
        while ((n = read(fd, g_res, sizeof(g_res))) > 0) write_all(ofd, g_res, (size_t) n);
        close(fd);
        unlink(part);
    }
    close(ofd);
    return 0;
}
