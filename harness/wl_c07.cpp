// C07 — condition variables never lose a notification.
#include "parties.hpp"

#include <pika/concurrency/spinlock.hpp>
#include <pika/condition_variable.hpp>
#include <pika/mutex.hpp>
#include <pika/stop_token.hpp>

#include <chrono>
#include <mutex>

using namespace vh;

namespace {

    std::vector<std::string> const c07_focus = {"condition_variable::wait", "condition_variable::notify_one", "condition_variable::notify_all", "condition_variable_any", "stop_state", "stop_callback", "execution_agent::do_yield", "set_thread_state", "default_agent"};
    struct FocusInit
    {
        FocusInit()
        {
            for (auto& s : c07_focus) focus_patterns().push_back(s);
        }
    } focus_init;


    enum
    {
        OP_WAIT_LOOP = 1,         // while (gen < T) cv.wait(lk)
        OP_WAIT_PRED = 2,         // cv.wait(lk, pred)
        OP_WAIT_FOR = 3,          // single cv.wait_for(lk, a us) -> cv_status
        OP_WAIT_UNTIL_PRED = 4,   // cv.wait_until(lk, now + a us, pred) -> bool
        OP_WAIT_STOP = 5,         // cv.wait(lk, stoken, pred)           (cv_any only)
        OP_WAIT_STOP_FOR = 6,     // cv.wait_for(lk, stoken, a us, pred)  (cv_any only)
        OP_NOTIFY_ONE = 7,        // b = 1: notify while holding the user lock
        OP_NOTIFY_ALL = 8,
        OP_REQUEST_STOP = 9,
        OP_YIELD = 10,
    };

    struct WaitRec
    {
        int party;
        int op;
        int64_t target;
        uint64_t e_reg;
        bool returned = false;
        bool timed = false;
        bool stop_form = false;
        uint64_t deadline_ns = 0;
    };
    struct NotifyRec
    {
        uint64_t lock_seq;    // event number at which the notifier held the user lock
        int64_t gen;          // generation published
        bool all;
        int nwaiting;         // registered, unreturned waiters when the notifier held the lock
        bool returned = false;
        uint64_t ret_ns = 0;
    };

    struct State
    {
        int64_t gen = 0;
        int holder = -1;
        std::vector<WaitRec> waits;
        std::vector<NotifyRec> notifies;
        std::vector<int> in_wait;    // per party: index into waits or -1
        bool stop_requested_returned = false;
        uint64_t stop_seq = 0;
    };
    State S;

    void yield_here(int kind, int times)
    {
        for (int i = 0; i < times; i++)
        {
            if (kind == PARTY_OS)
                std::this_thread::yield();
            else
                pika::this_thread::yield();
        }
    }

    int count_waiting()
    {
        int n = 0;
        for (auto& w : S.waits)
            if (!w.returned) n++;
        return n;
    }

    // is this (unreturned) waiter owed a wake-up by a notify that has already returned?
    bool owed(WaitRec const& w)
    {
        if (w.stop_form && S.stop_requested_returned) return true;
        for (auto& n : S.notifies)
        {
            if (!n.returned) continue;
            if (n.lock_seq <= w.e_reg) continue;
            if (n.gen < w.target) continue;
            if (n.all || n.nwaiting == 1) return true;
        }
        return false;
    }
    // same, restricted to notifies that returned strictly before the deadline
    bool owed_before_deadline(WaitRec const& w)
    {
        for (auto& n : S.notifies)
        {
            if (!n.returned || n.ret_ns >= w.deadline_ns) continue;
            if (n.lock_seq <= w.e_reg) continue;
            if (n.gen < w.target) continue;
            if (n.all || n.nwaiting == 1) return true;
        }
        return false;
    }

    template <typename L>
    void lock_user(L& lk, int me)
    {
        lk.lock();
        VH_CHECK(S.holder == -1, "C07.user_lock", "party %d locked the user lock while party %d holds it",
            me, S.holder);
        S.holder = me;
    }
    template <typename L>
    void unlock_user(L& lk, int)
    {
        S.holder = -1;
        lk.unlock();
    }
    template <typename L>
    void after_wait(L& lk, int me)
    {
        VH_CHECK(lk.owns_lock(), "C07.lock_not_reacquired", "wait returned without owning the user lock");
        VH_CHECK(S.holder == -1, "C07.lock_not_reacquired",
            "wait returned to party %d while party %d holds the user lock", me, S.holder);
        S.holder = me;
    }

    template <typename CV, typename Mutex, bool HasStop>
    struct Runner
    {
        CV cv;
        Mutex mtx;
        pika::stop_source ssrc;

        void notify(int me, int kind, bool all, bool holding, int yields)
        {
            std::unique_lock<Mutex> lk(mtx, std::defer_lock);
            lock_user(lk, me);
            S.gen++;
            NotifyRec n;
            n.lock_seq = sim_seq();
            n.gen = S.gen;
            n.all = all;
            n.nwaiting = count_waiting();
            size_t idx = S.notifies.size();
            S.notifies.push_back(n);
            ev(all ? 8 : 7, me, S.gen);
            if (!holding)
            {
                unlock_user(lk, me);
                yield_here(kind, yields);    // never yield while holding the user lock
            }
            if (all)
                cv.notify_all();
            else
                cv.notify_one();
            S.notifies[idx].ret_ns = sim_now_ns();
            S.notifies[idx].returned = true;
            if (holding) unlock_user(lk, me);
        }

        void wait_op(int me, int kind, Op const& op)
        {
            int64_t a = op.v[2];
            int code = (int) op.v[1];
            bool timed = code == OP_WAIT_FOR || code == OP_WAIT_UNTIL_PRED || code == OP_WAIT_STOP_FOR;
            if (timed && kind == PARTY_OS) return;    // known-finding sub-workload only
            if ((code == OP_WAIT_STOP || code == OP_WAIT_STOP_FOR) && !HasStop) return;
            std::unique_lock<Mutex> lk(mtx, std::defer_lock);
            lock_user(lk, me);
            WaitRec w;
            w.party = me;
            w.op = code;
            w.target = S.gen + 1;
            w.e_reg = sim_seq();
            w.timed = timed;
            w.stop_form = code == OP_WAIT_STOP || code == OP_WAIT_STOP_FOR;
            size_t wi = S.waits.size();
            S.waits.push_back(w);
            S.in_wait[(size_t) me] = (int) wi;
            int64_t const target = w.target;
            ev(code, me, target);
            auto pred = [target] { return S.gen >= target; };
            auto dl = std::chrono::steady_clock::now() + std::chrono::microseconds(a);
            if (timed)
                S.waits[wi].deadline_ns = (uint64_t) std::chrono::duration_cast<std::chrono::nanoseconds>(
                    dl.time_since_epoch())
                                              .count();
            S.holder = -1;    // the wait releases the user lock
            switch (code)
            {
            case OP_WAIT_LOOP:
                while (!pred())
                {
                    cv.wait(lk);
                    after_wait(lk, me);
                    S.holder = -1;
                }
                break;
            case OP_WAIT_PRED:
                cv.wait(lk, pred);
                break;
            case OP_WAIT_FOR:
            {
                pika::cv_status st = cv.wait_until(lk, dl);
                bool must = owed_before_deadline(S.waits[wi]);
                probe(st == pika::cv_status::timeout ? "wait_for.timeout" : "wait_for.no_timeout");
                if (must)
                {
                    probe("timed.notified_before_deadline");
                    VH_CHECK(st == pika::cv_status::no_timeout, "C07.timeout_despite_notify",
                        "wait_until reported a timeout although a notify aimed at this waiter "
                        "returned before the deadline (%llu ns)",
                        (unsigned long long) S.waits[wi].deadline_ns);
                }
                break;
            }
            case OP_WAIT_UNTIL_PRED:
            {
                bool r = cv.wait_until(lk, dl, pred);
                VH_CHECK(r == pred(), "C07.pred_result",
                    "wait_until(pred) returned %d but the predicate is %d", (int) r, (int) pred());
                probe(r ? "wait_until_pred.true" : "wait_until_pred.false");
                break;
            }
            case OP_WAIT_STOP:
                if constexpr (HasStop)
                {
                    bool r = cv.wait(lk, ssrc.get_token(), pred);
                    if (r)
                        VH_CHECK(pred(), "C07.pred_result", "stop-token wait returned true, predicate false");
                    else
                        VH_CHECK(ssrc.stop_requested(), "C07.stop_result",
                            "stop-token wait returned false without a stop request");
                    probe(r ? "wait_stop.pred" : "wait_stop.stopped");
                }
                break;
            case OP_WAIT_STOP_FOR:
                if constexpr (HasStop)
                {
                    bool r = cv.wait_for(lk, ssrc.get_token(), std::chrono::microseconds(a), pred);
                    VH_CHECK(r == pred() || ssrc.stop_requested(), "C07.pred_result",
                        "timed stop-token wait returned %d, predicate %d", (int) r, (int) pred());
                }
                break;
            default:
                break;
            }
            after_wait(lk, me);
            if (code == OP_WAIT_LOOP || code == OP_WAIT_PRED)
                VH_CHECK(pred(), "C07.pred_result", "wait(pred) returned with a false predicate");
            S.waits[wi].returned = true;
            S.in_wait[(size_t) me] = -1;
            unlock_user(lk, me);
        }

        void run_party(Program const& prog, int me, int kind)
        {
            for (auto const& op : prog)
            {
                if (op.v[0] != me) continue;
                switch (op.v[1])
                {
                case OP_NOTIFY_ONE:
                case OP_NOTIFY_ALL:
                    notify(me, kind, op.v[1] == OP_NOTIFY_ALL, op.v[3] == 1, (int) op.v[2]);
                    break;
                case OP_REQUEST_STOP:
                    if constexpr (HasStop)
                    {
                        ssrc.request_stop();
                        S.stop_requested_returned = true;
                        ev(9, me);
                    }
                    break;
                case OP_YIELD:
                    yield_here(kind, (int) op.v[2]);
                    break;
                default:
                    wait_op(me, kind, op);
                    break;
                }
            }
        }
    };

    Program gen(RunCtx& ctx, int nparties, bool has_stop)
    {
        Rng r(mix_seed(ctx.seed, 51));
        Program p;
        int nops = (int) r.range(2, ctx.thorough ? 30 : 18);
        for (int i = 0; i < nops; i++)
        {
            Op op;
            op.v[0] = (int64_t) r.below((uint64_t) nparties);
            uint64_t x = r.below(100);
            int k = x < 12 ? OP_WAIT_LOOP :
                x < 26     ? OP_WAIT_PRED :
                x < 36     ? OP_WAIT_FOR :
                x < 46     ? OP_WAIT_UNTIL_PRED :
                x < 52     ? (has_stop ? OP_WAIT_STOP : OP_WAIT_PRED) :
                x < 56     ? (has_stop ? OP_WAIT_STOP_FOR : OP_WAIT_FOR) :
                x < 70     ? OP_NOTIFY_ONE :
                x < 88     ? OP_NOTIFY_ALL :
                x < 91     ? (has_stop ? OP_REQUEST_STOP : OP_NOTIFY_ALL) :
                             OP_YIELD;
            op.v[1] = k;
            if (k == OP_WAIT_FOR || k == OP_WAIT_UNTIL_PRED || k == OP_WAIT_STOP_FOR)
                op.v[2] = (int64_t) r.logu(20, 2000);
            else
                op.v[2] = r.range(0, 3);
            op.v[3] = r.chance(1, 4) ? 1 : 0;
            p.push_back(op);
        }
        return p;
    }

    using spin_t = pika::concurrency::detail::spinlock;
    template <typename CV, typename Mutex, bool HasStop, bool OsOk>
    void run_cv(RunCtx& ctx)
    {
        pk::draw_runtime(ctx, ctx.thorough ? 8 : 5);
        Rng r(mix_seed(ctx.seed, 50));
        int nparties = (int) ctx.params.set("c07.parties", r.range(2, 6));
        int64_t os_mask = ctx.params.set("c07.os_mask", OsOk && r.chance(1, 2) ? (int64_t) r.below(64) : 0);
        // A user lock that blocks the OS thread (std::mutex) belongs to plain OS threads: condition_variable_any
        // takes its internal spinlock while it still holds the user lock and a pika task *yields* when that
        // spinlock is contended; a second task that then blocks its worker in std::mutex::lock() can keep the
        // owner from ever running again (seen once in 33 000 thorough runs: three workers blocked on the
        // mutex, its owner pending). That is the usual hazard of OS locks held across a task switch, not a
        // property of the condition variable: all parties of this sub-workload are OS threads.
        if (std::is_same_v<Mutex, std::mutex>) os_mask = ctx.params.set("c07.os_mask", 63);
        // A spinlock as user lock is taken by spinning with yields, and the library may switch its owner out
        // while it holds it (it takes its internal lock first): where no other worker can steal, the spinning
        // task can starve the owner in its own queue for good (C01's known finding kf_yield_starvation, seen
        // once in 29 000 thorough runs with min_tasks_to_steal_pending = 3). Task parties only where stealing works.
        // ... and only while at least one worker stays free of spinning parties (a worker steals only when it
        // is idle): as many workers as task parties.
        {
            int task_parties = 0;
            for (int i = 0; i < nparties; i++)
                if (!((os_mask >> i) & 1)) task_parties++;
            if (std::is_same_v<Mutex, spin_t> && (!pk::steals(ctx) || pk::workers(ctx) < task_parties))
                os_mask = ctx.params.set("c07.os_mask", 63);
        }
        if (!ctx.program_from_replay) ctx.program = gen(ctx, nparties, HasStop);
        sim_config sc = draw_sim_config(ctx, 60000, FAULT_STALL | FAULT_CLOCKJUMP | FAULT_TRYFAIL | FAULT_SPURIOUS);
        begin_sim(ctx, sc);
        focus_select(ctx, c07_focus, 3);
        g_dump_hook = +[]() -> std::string {
            std::string s = pk::dump() + sfmt(" | cv model: gen=%lld waits:", (long long) S.gen);
            for (auto& w : S.waits)
                if (!w.returned)
                    s += sfmt(" [party %d op %d target %lld reg@%llu owed=%d]", w.party, w.op,
                        (long long) w.target, (unsigned long long) w.e_reg, (int) owed(w));
            return s;
        };
        pk::start(ctx);
        static Runner<CV, Mutex, HasStop> R;
        static Parties P;
        S.in_wait.assign((size_t) nparties, -1);
        S.waits.reserve(256);
        S.notifies.reserve(256);
        std::vector<int> kinds;
        for (int i = 0; i < nparties; i++) kinds.push_back((os_mask >> i) & 1 ? PARTY_OS : PARTY_TASK);
        Program const& prog = ctx.program;
        P.launch(kinds, [&prog, kinds](int i) { R.run_party(prog, i, kinds[(size_t) i]); });
        int64_t cleanups = 0;
        while (!P.all_finished())
        {
            // who is still waiting (untimed), and is anyone of them owed a wake-up already?
            int unfinished = P.n - P.nfinished;
            int blocked = 0;
            bool any_owed = false;
            for (int p = 0; p < P.n; p++)
            {
                int wi = S.in_wait[(size_t) p];
                if (wi < 0) continue;
                WaitRec const& w = S.waits[(size_t) wi];
                if (w.timed) continue;
                blocked++;
                if (owed(w)) any_owed = true;
            }
            if (!any_owed && blocked == unfinished && blocked > 0)
            {
                // nobody is owed and everybody left is blocked: the program has run out of notifies;
                // issue one that satisfies every registered waiter (after which all are owed)
                auto cleanup = [] {
                    std::unique_lock<Mutex> lk(R.mtx, std::defer_lock);
                    lock_user(lk, -2);
                    S.gen += 1000;
                    NotifyRec n;
                    n.lock_seq = sim_seq();
                    n.gen = S.gen;
                    n.all = true;
                    n.nwaiting = count_waiting();
                    unlock_user(lk, -2);
                    R.cv.notify_all();
                    n.returned = true;
                    n.ret_ns = sim_now_ns();
                    S.notifies.push_back(n);
                };
                if constexpr (std::is_same_v<Mutex, pika::mutex>)
                {
                    // pika::mutex may only be used from pika tasks
                    namespace ex = pika::execution::experimental;
                    pika::this_thread::experimental::sync_wait(
                        ex::schedule(ex::thread_pool_scheduler{}) | ex::then(cleanup));
                }
                else
                    cleanup();
                cleanups++;
            }
            main_pause();
        }
        P.join_os();
        sim_quiesce(2000000);
        probe("cleanup_notifies", (uint64_t) cleanups);
        pk::stop();
    }

    using spin = pika::concurrency::detail::spinlock;
    void run_cv_mutex(RunCtx& c) { run_cv<pika::condition_variable, pika::mutex, false, false>(c); }
    void run_cva_mutex(RunCtx& c) { run_cv<pika::condition_variable_any, pika::mutex, true, false>(c); }
    void run_cva_spin(RunCtx& c) { run_cv<pika::condition_variable_any, spin, true, true>(c); }
    void run_cva_std(RunCtx& c) { run_cv<pika::condition_variable_any, std::mutex, true, true>(c); }

    // known finding: timed wait on a plain OS thread, notified before the deadline
    void run_kf_timed_os(RunCtx& ctx)
    {
        pk::draw_runtime(ctx, 3);
        Rng r(mix_seed(ctx.seed, 52));
        int64_t dl_us = ctx.params.set("c07.deadline_us", (int64_t) r.logu(200, 3000));
        int64_t yields = ctx.params.set("c07.notify_after_yields", r.range(0, 6));
        sim_config sc = draw_sim_config(ctx, 40000, FAULT_STALL);
        begin_sim(ctx, sc);
        focus_select(ctx, c07_focus, 3);
        g_dump_hook = pk::dump;
        pk::start(ctx);
        static pika::condition_variable_any cv;
        static spin mtx;
        static bool ready = false, registered = false;
        static int result = -1;
        static uint64_t deadline_ns = 0, notify_ret_ns = 0;
        static Parties P;
        P.launch({PARTY_OS, PARTY_TASK}, [dl_us, yields](int i) {
            if (i == 0)
            {
                std::unique_lock<spin> lk(mtx);
                auto dl = std::chrono::steady_clock::now() + std::chrono::microseconds(dl_us);
                deadline_ns = (uint64_t) std::chrono::duration_cast<std::chrono::nanoseconds>(
                    dl.time_since_epoch())
                                  .count();
                registered = true;
                bool r = cv.wait_until(lk, dl, [] { return ready; });
                result = r ? 1 : 0;
            }
            else
            {
                for (;;)
                {
                    std::unique_lock<spin> lk(mtx);
                    if (registered) break;
                    lk.unlock();
                    pika::this_thread::yield();
                }
                yield_here(PARTY_TASK, (int) yields);
                {
                    std::unique_lock<spin> lk(mtx);
                    ready = true;
                }
                cv.notify_all();
                notify_ret_ns = sim_now_ns();
            }
        });
        while (!P.all_finished()) main_pause();
        P.join_os();
        sim_quiesce(2000000);
        if (notify_ret_ns < deadline_ns)
            VH_CHECK(result == 1, "C07.timeout_despite_notify", "OS-thread timed wait returned false");
        pk::stop();
    }

    Registrar r1(Workload{"C07", "cv_mutex", 30, run_cv_mutex, pk::preload});
    Registrar r2(Workload{"C07", "cva_mutex", 25, run_cva_mutex, pk::preload});
    Registrar r3(Workload{"C07", "cva_spinlock", 25, run_cva_spin, pk::preload});
    Registrar r4(Workload{"C07", "cva_std_mutex", 20, run_cva_std, pk::preload});
    Registrar r5(Workload{"C07", "kf_timed_os", 0, run_kf_timed_os, pk::preload});

}    // namespace
