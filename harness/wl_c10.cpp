// C10 — work runs where it was sent: scheduler, pool and hint placement.
#include "parties.hpp"

#include <pika/executors/std_thread_scheduler.hpp>
#include <pika/runtime/thread_pool_helpers.hpp>
#include <pika/semaphore.hpp>

#include <memory>

using namespace vh;
namespace ex = pika::execution::experimental;
namespace tt = pika::this_thread::experimental;

namespace {

    std::vector<std::string> const c10_focus = {"thread_pool_scheduler", "schedule_from", "create_work", "create_thread",
        "get_next_thread", "schedule_thread", "select_active_pu", "static_queue_scheduler", "static_priority_queue_scheduler"};
    struct FocusInit
    {
        FocusInit()
        {
            for (auto& s : c10_focus) focus_patterns().push_back(s);
        }
    } focus_init;

    enum
    {
        K_SCHEDULE_THEN = 0,
        K_EXECUTE = 1,
        K_TRANSFER_JUST = 2,
        K_CONTINUES_ON = 3,
        K_BULK = 4,
        K_HINTED = 5,
        K_STD_THREAD = 6,
        K_COUNT = 7
    };

    struct Pool
    {
        std::string name;
        pika::threads::detail::thread_pool_base* pool = nullptr;
        int policy = 0;
        int threads = 0;
        bool stealing = true;
    };
    std::vector<Pool> pools;
    int g_submit_depth[256];    // per simulated thread: >0 while inside a submitting call
    int g_records = 0, g_expected_records = 0;
    std::vector<int> g_worker_tids;    // simulated thread ids seen running pika tasks
    std::vector<std::thread> g_wakers;  // OS threads that wake suspended hinted tasks

    // a hinted task that suspends between its phases: the waker releases one permit per phase, at a
    // drawn distance after the task announced that it is about to block (so that the wake-up can hit
    // the window in which the task is registered as a waiter but still active)
    struct Susp
    {
        pika::counting_semaphore<> sem{0};
        int about_to_block = 0;
        int phases_done = 0;
    };

    int pool_index_here()
    {
        auto* p = pika::this_thread::get_pool();
        for (size_t i = 0; i < pools.size(); i++)
            if (pools[i].pool == p) return (int) i;
        return -1;
    }

    void record(int opidx, int expected_pool, char const* what)
    {
        g_records++;
        VH_CHECK(pika::threads::detail::get_self_ptr() != nullptr, "C10.not_a_task",
            "op %d (%s): the callable does not run as a pika task", opidx, what);
        int here = pool_index_here();
        VH_CHECK(here == expected_pool, "C10.wrong_pool", "op %d (%s): runs on pool %d (%s), was sent to pool %d (%s)", opidx,
            what, here, here >= 0 ? pools[(size_t) here].name.c_str() : "?", expected_pool,
            pools[(size_t) expected_pool].name.c_str());
        int tid = sim_tid();
        VH_CHECK(g_submit_depth[tid & 255] == 0, "C10.inline_in_submit",
            "op %d (%s): the callable runs inside the call that submitted it", opidx, what);
        std::size_t local = pika::get_local_worker_thread_num();
        VH_CHECK((int) local < pools[(size_t) expected_pool].threads, "C10.worker_range",
            "op %d (%s): local worker number %zu out of range for pool %s", opidx, what, local,
            pools[(size_t) expected_pool].name.c_str());
        bool seen = false;
        for (int t : g_worker_tids)
            if (t == tid) seen = true;
        if (!seen) g_worker_tids.push_back(tid);
        ev(1, opidx, here);
    }

    struct SubmitScope
    {
        int tid;
        SubmitScope()
          : tid(sim_tid() & 255)
        {
            g_submit_depth[tid]++;
        }
        ~SubmitScope() { g_submit_depth[tid]--; }
    };

    ex::thread_pool_scheduler sched_of(int p) { return ex::thread_pool_scheduler{pools[(size_t) p].pool}; }

    void submit_op(int idx, Op const& op)
    {
        int kind = (int) (((op.v[0] % K_COUNT) + K_COUNT) % K_COUNT);
        int np = (int) pools.size();
        int a = (int) (((op.v[1] % np) + np) % np), b = (int) (((op.v[2] % np) + np) % np);
        int yields = (int) (op.v[6] & 3);
        using tp = pika::execution::thread_priority;
        tp prio = (op.v[4] & 3) == 1 ? tp::high : (op.v[4] & 3) == 2 ? tp::low : tp::normal;
        auto sa = ex::with_priority(sched_of(a), prio);
        switch (kind)
        {
        case K_SCHEDULE_THEN:
        {
            g_expected_records++;
            SubmitScope s;
            ex::start_detached(ex::schedule(sa) | ex::then([idx, a, yields] {
                record(idx, a, "schedule|then");
                for (int y = 0; y < yields; y++) pika::this_thread::yield();
            }));
            break;
        }
        case K_EXECUTE:
        {
            g_expected_records++;
            SubmitScope s;
            ex::execute(sa, [idx, a] { record(idx, a, "execute"); });
            break;
        }
        case K_TRANSFER_JUST:
        {
            g_expected_records++;
            SubmitScope s;
            ex::start_detached(ex::transfer_just(sa, idx) | ex::then([a](int i) { record(i, a, "transfer_just|then"); }));
            break;
        }
        case K_CONTINUES_ON:
        {
            g_expected_records += 2;
            SubmitScope s;
            ex::start_detached(ex::schedule(sa) | ex::then([idx, a] { record(idx, a, "before continues_on"); }) |
                ex::continues_on(sched_of(b)) | ex::then([idx, b] { record(idx, b, "after continues_on"); }));
            probe("continues_on");
            break;
        }
        case K_BULK:
        {
            int n = (int) (1 + (op.v[3] & 7));
            g_expected_records += n;
            SubmitScope s;
            ex::start_detached(ex::schedule(sa) | ex::bulk(n, [idx, a](int) { record(idx, a, "bulk"); }));
            probe("bulk");
            break;
        }
        case K_HINTED:
        {
            // a normal-priority hinted task on a static (non-stealing) pool runs every phase on the
            // hinted worker
            Pool& P = pools[(size_t) a];
            int hint = (int) ((op.v[3] & 0xff) % P.threads);
            bool must_stay = !P.stealing;
            g_expected_records++;
            auto sh = ex::with_hint(sched_of(a), pika::execution::thread_schedule_hint((std::int16_t) hint));
            SubmitScope s;
            bool suspends = (op.v[6] & 4) != 0;
            std::shared_ptr<Susp> sp = suspends ? std::make_shared<Susp>() : nullptr;
            int waker_os = (int) (op.v[7] & 1), waker_delay = (int) ((op.v[7] >> 1) & 3);
            int wpool = b;
            ex::start_detached(ex::schedule(sh) | ex::then([idx, a, hint, must_stay, yields, sp, waker_os, waker_delay, wpool] {
                record(idx, a, "hinted");
                for (int y = 0; y <= yields; y++)
                {
                    // every phase - also after a suspension - runs on a worker of the pool the task was sent to
                    VH_CHECK(pool_index_here() == a, "C10.wrong_pool", "op %d: phase %d of a task sent to pool %d (%s) runs on pool %d", idx, y, a,
                        pools[(size_t) a].name.c_str(), pool_index_here());
                    if (must_stay)
                    {
                        VH_CHECK((int) pika::get_local_worker_thread_num() == hint, "C10.hint_not_honoured",
                            "op %d: phase %d of a task hinted to worker %d of static pool %s runs on worker %zu", idx, y,
                            hint, pools[(size_t) a].name.c_str(), pika::get_local_worker_thread_num());
                        probe(sp ? "hinted_phase_after_suspension_on_static_pool" : "hinted_phase_on_static_pool");
                    }
                    if (y < yields)
                    {
                        if (sp)
                        {
                            if (!waker_os)
                            {
                                // the waker is a task on (possibly) another worker or pool; it does not poll
                                // (a polling task can starve this one: C01's known finding)
                                ex::execute(sched_of(wpool), [sp, waker_delay] {
                                    for (int d = 0; d < waker_delay; d++) pika::this_thread::yield();
                                    sp->sem.release();
                                });
                            }
                            sp->about_to_block = y + 1;
                            sp->sem.acquire();
                            sp->phases_done = y + 1;
                            probe("hinted_task_suspended");
                        }
                        else
                            pika::this_thread::yield();
                    }
                }
            }));
            if (sp && yields > 0 && waker_os)
            {
                // (submit_op runs on several simulated threads: the thread is created first, the shared vector
                // is only touched inside an atomic section and never reallocates)
                std::thread wt([sp, yields, waker_delay] {
                    for (int y = 1; y <= yields; y++)
                    {
                        while (sp->about_to_block < y) std::this_thread::yield();
                        for (int d = 0; d < waker_delay; d++) std::this_thread::yield();
                        sp->sem.release();
                    }
                });
                AtomicSection a;
                g_wakers.push_back(std::move(wt));
            }
            break;
        }
        case K_STD_THREAD:
        {
            g_expected_records++;
            int submitter = sim_tid();
            SubmitScope s;
            ex::start_detached(ex::schedule(ex::std_thread_scheduler{}) | ex::then([idx, submitter] {
                g_records++;
                VH_CHECK(pika::threads::detail::get_self_ptr() == nullptr, "C10.std_thread_on_task",
                    "op %d: std_thread_scheduler work runs on a pika task", idx);
                int tid = sim_tid();
                VH_CHECK(tid != submitter, "C10.std_thread_inline", "op %d: std_thread_scheduler work runs on the submitting thread", idx);
                for (int t : g_worker_tids)
                    VH_CHECK(t != tid, "C10.std_thread_on_worker", "op %d: std_thread_scheduler work runs on a worker thread", idx);
                probe("std_thread");
            }));
            break;
        }
        default:
            break;
        }
    }

    void run_place(RunCtx& ctx)
    {
        Rng r(mix_seed(ctx.seed, 1000));
        ctx.params.set("rt.min_thread_count", 2 * (ctx.thorough ? 30 : 18) + 16);    // suspended hinted tasks + their wakers
        pk::draw_runtime(ctx, 4);
        int nextra = (int) ctx.params.set("c10.extra_pools", r.range(0, 2));
        std::vector<pk::PoolSpec> spec;
        for (int i = 0; i < nextra; i++)
        {
            int pol = (int) ctx.params.set(sfmt("c10.pool%d.policy", i + 1), (int64_t) r.below(8));
            int nt = (int) ctx.params.set(sfmt("c10.pool%d.threads", i + 1), r.range(1, 3));
            spec.push_back(pk::PoolSpec{sfmt("extra%d", i + 1), pol, nt, -1});
        }
        if (!ctx.program_from_replay)
        {
            Program p;
            int nops = (int) r.range(2, ctx.thorough ? 30 : 18);
            for (int i = 0; i < nops; i++)
            {
                Op op;
                op.v[0] = (int64_t) r.below(K_COUNT);
                op.v[1] = (int64_t) r.below(3);
                op.v[2] = (int64_t) r.below(3);
                op.v[3] = (int64_t) r.below(64);
                op.v[4] = r.chance(2, 3) ? 0 : (int64_t) r.below(3);
                op.v[5] = (int64_t) r.below(3);    // submitter: 0 main, 1 task, 2 OS thread
                op.v[6] = (int64_t) r.below(8);
                op.v[7] = (int64_t) r.below(8);
                p.push_back(op);
            }
            ctx.program = p;
        }
        sim_config sc = draw_sim_config(ctx, 80000, FAULT_STALL | FAULT_TRYFAIL);
        begin_sim(ctx, sc);
        focus_select(ctx, c10_focus, 3);
        g_dump_hook = +[]() -> std::string { return pk::dump() + sfmt(" | records %d of %d", g_records, g_expected_records); };
        g_wakers.reserve(256);
        pk::start_with_pools(ctx, spec);
        {
            Pool d;
            d.name = "default";
            d.pool = &pika::resource::get_thread_pool("default");
            d.policy = pk::policy(ctx);
            d.threads = (int) d.pool->get_os_thread_count();
            pools.push_back(d);
            for (auto& s : spec)
            {
                Pool e;
                e.name = s.name;
                e.pool = &pika::resource::get_thread_pool(s.name);
                e.policy = s.policy;
                e.threads = (int) e.pool->get_os_thread_count();
                VH_CHECK(e.threads == s.threads, "C10.pool_layout", "pool %s has %d workers, requested %d", s.name.c_str(),
                    e.threads, s.threads);
                pools.push_back(e);
            }
            for (auto& P : pools)
            {
                bool is_static = P.policy == pk::POL_STATIC || P.policy == pk::POL_STATIC_PRIO;
                P.stealing = !is_static;
                if (is_static)
                    VH_CHECK(!P.pool->get_scheduler()->has_scheduler_mode(pika::threads::scheduler_mode::enable_stealing),
                        "C10.static_steals", "static pool %s has stealing enabled", P.name.c_str());
            }
        }
        // the default pool's adverse mode bits may have switched stealing off for a non-static policy
        int n = (int) ctx.program.size();
        std::vector<std::thread> os;
        for (int i = 0; i < n; i++)
        {
            Op const op = ctx.program[(size_t) i];
            int who = (int) (((op.v[5] % 3) + 3) % 3);
            if (who == 0)
                submit_op(i, op);
            else if (who == 1)
                ex::execute(ex::thread_pool_scheduler{}, [i, op] { submit_op(i, op); });
            else
                os.emplace_back([i, op] { submit_op(i, op); });
        }
        for (auto& t : os) t.join();
        while (g_records < g_expected_records) main_pause(3000000);
        sim_quiesce(3000000);
        for (auto& t : g_wakers) t.join();
        sim_quiesce(3000000);
        pika::wait();
        // std_thread_scheduler work is outside the runtime: wait for it
        while (g_records < g_expected_records) main_pause(3000000);
        VH_CHECK(g_records == g_expected_records, "C10.lost_work", "%d of %d callables ran", g_records, g_expected_records);
        focus_report();
        pk::stop();
    }

    Registrar r1(Workload{"C10", "placement", 100, run_place, pk::preload});

}    // namespace
