#include "pk.hpp"

#include <pika/modules/thread_manager.hpp>
#include <pika/runtime/runtime.hpp>
#include <pika/runtime/thread_pool_helpers.hpp>
#include <pika/topology/topology.hpp>

namespace vh::pk {

    char const* const policy_names[8] = {"local", "local-priority-fifo", "local-priority-lifo",
        "static", "static-priority", "abp-priority-fifo", "abp-priority-lifo", "shared-priority"};

    void preload()
    {
        // the topology singleton reads /sys once; do it in the zygote
        (void) pika::threads::detail::get_topology();
    }

    void draw_runtime(RunCtx& ctx, int max_workers, unsigned policy_mask, int stream)
    {
        Rng r(mix_seed(ctx.seed, 21 + (uint64_t) stream * 101));
        Params& P = ctx.params;
        std::string pre = stream ? sfmt("rt%d.", stream) : std::string("rt.");
        auto key = [&](char const* k) { return pre + k; };
        int w = (int) r.range(1, max_workers);
        // small worker counts are the most interesting and cheapest: bias
        if (r.chance(40, 100)) w = (int) r.range(1, max_workers < 4 ? max_workers : 4);
        P.set(key("workers"), w);
        std::vector<int> pols;
        for (int i = 0; i < 8; i++)
            if (policy_mask & (1u << i)) pols.push_back(i);
        P.set(key("policy"), r.pick(pols));
        // F10 adverse tuning knobs: default in half of the runs
        bool adverse = r.chance(50, 100);
        // max_thread_count bounds the number of concurrently existing tasks per queue: keep it above
        // the number of tasks a workload lets block on each other (else the configuration itself
        // deadlocks the program), but small enough that staged tasks are converted in several steps
        // (a queue converts staged tasks while pending work exists only if max_thread_count >= live thread
        // objects + min_add_new_count, and live objects include up to max_terminated_threads finished ones:
        // with tasks that poll - barrier::wait, yield_while - a limit closer than that to the number of
        // tasks the program needs starves the staged ones for good. That is the limit doing what it says,
        // not a property violation, so the drawn limit keeps that distance.)
        int64_t min_tc = P.get("rt.min_thread_count", 16) + 10 + 20 + 2;
        P.set(key("max_thread_count"), adverse && r.chance(1, 2) ? r.range(min_tc, min_tc + 16) : 1000);
        P.set(key("min_add_new_count"), adverse ? r.range(1, 10) : 10);
        P.set(key("max_add_new_count"), adverse ? r.range(1, 10) : 10);
        P.set(key("min_delete_count"), adverse ? r.range(1, 10) : 10);
        P.set(key("max_delete_count"), adverse ? r.range(1, 50) : 1000);
        P.set(key("max_terminated_threads"), adverse ? r.range(1, 20) : 100);
        P.set(key("init_threads_count"), adverse ? r.range(1, 10) : 10);
        P.set(key("min_steal_pending"), adverse && r.chance(1, 3) ? r.range(1, 5) : 0);
        P.set(key("min_steal_staged"), adverse && r.chance(1, 3) ? r.range(1, 5) : 0);
        P.set(key("max_idle_loop_count"), adverse ? (int64_t) r.logu(10, 20000) : 200000);
        P.set(key("max_busy_loop_count"), adverse ? (int64_t) r.logu(2, 2000) : 2000);
        P.set(key("max_idle_backoff_time"), adverse ? (int64_t) r.logu(1, 1000) : 1000);
        // scheduler mode: -1 = pika's default; otherwise explicit bits
        int64_t mode = -1;
        if (r.chance(40, 100))
        {
            mode = 0x001 | 0x008 | 0x010;                 // reduce prio, numa stealing, round robin
            if (r.chance(75, 100)) mode |= 0x004;         // enable_stealing
            if (r.chance(50, 100)) mode |= 0x080;         // steal_after_local
            if (r.chance(30, 100)) mode |= 0x040;         // steal_high_priority_first
            if (r.chance(30, 100)) mode |= 0x100;         // idle backoff
            if (r.chance(30, 100)) mode |= 0x002;         // elasticity
            if (r.chance(20, 100)) mode |= 0x020;         // assign_work_thread_parent
        }
        P.set(key("mode"), mode);
        P.set(key("guard_pages"), r.chance(1, 4) ? 1 : 0);
    }

    int workers(RunCtx& ctx) { return (int) ctx.params.get("rt.workers", 1); }
    bool steals(RunCtx& ctx)
    {
        int64_t mode = ctx.params.get("rt.mode", -1);
        int pol = policy(ctx);
        return pol != POL_STATIC && pol != POL_STATIC_PRIO && (mode == -1 || (mode & 0x4)) && workers(ctx) >= 2 &&
            ctx.params.get("rt.min_steal_pending", 0) == 0 && ctx.params.get("rt.min_steal_staged", 0) == 0;
    }
    int policy(RunCtx& ctx) { return (int) ctx.params.get("rt.policy", 1); }

    static std::vector<std::string> build_args(RunCtx& ctx, std::string const& pre)
    {
        Params& P = ctx.params;
        auto g = [&](char const* k, int64_t d = 0) { return P.get(pre + k, d); };
        std::vector<std::string> a;
        a.push_back("pikasim");
        a.push_back(sfmt("--pika:threads=%lld", (long long) g("workers", 1)));
        a.push_back(sfmt("--pika:scheduler=%s", policy_names[g("policy", 1) & 7]));
        a.push_back("--pika:ignore-process-mask");
        auto ini = [&](char const* k, int64_t v) {
            a.push_back(sfmt("--pika:ini=%s=%lld", k, (long long) v));
        };
        ini("pika.thread_queue.max_thread_count", g("max_thread_count", 1000));
        ini("pika.thread_queue.min_add_new_count", g("min_add_new_count", 10));
        ini("pika.thread_queue.max_add_new_count", g("max_add_new_count", 10));
        ini("pika.thread_queue.min_delete_count", g("min_delete_count", 10));
        ini("pika.thread_queue.max_delete_count", g("max_delete_count", 1000));
        ini("pika.thread_queue.max_terminated_threads", g("max_terminated_threads", 100));
        ini("pika.thread_queue.init_threads_count", g("init_threads_count", 10));
        ini("pika.thread_queue.min_tasks_to_steal_pending", g("min_steal_pending", 0));
        ini("pika.thread_queue.min_tasks_to_steal_staged", g("min_steal_staged", 0));
        ini("pika.max_idle_loop_count", g("max_idle_loop_count", 200000));
        ini("pika.max_busy_loop_count", g("max_busy_loop_count", 2000));
        ini("pika.max_idle_backoff_time", g("max_idle_backoff_time", 1000));
        if (g("mode", -1) >= 0) ini("pika.default_scheduler_mode", g("mode"));
        ini("pika.stacks.use_guard_pages", g("guard_pages", 0));
        auto ini_size = [&](char const* k, int64_t v) {
            int64_t const notation = g("stack_notation", 0);
            a.push_back(sfmt(notation == 1 ? "--pika:ini=%s=0x%llx" : notation == 2 ? "--pika:ini=%s=0%llo" : "--pika:ini=%s=%lld", k,
                (long long) v));
        };
        if (P.has(pre + "stack_small")) ini_size("pika.stacks.small_size", g("stack_small"));
        if (P.has(pre + "stack_medium")) ini_size("pika.stacks.medium_size", g("stack_medium"));
        if (P.has(pre + "stack_large")) ini_size("pika.stacks.large_size", g("stack_large"));
        if (P.has(pre + "stack_huge")) ini_size("pika.stacks.huge_size", g("stack_huge"));
        if (P.has(pre + "mpi_completion_mode")) ini("pika.mpi.completion_mode", g("mpi_completion_mode"));
        if (P.has(pre + "mpi_enable_pool")) ini("pika.mpi.enable_pool", g("mpi_enable_pool"));
        a.push_back("--pika:ini=pika.diagnostics_on_terminate=0");
        return a;
    }

    static std::string g_pre = "rt.";

    void start(RunCtx& ctx, std::function<int()> entry,
        std::function<void(pika::resource::partitioner&)> rp_cb)
    {
        std::vector<std::string> args = build_args(ctx, g_pre);
        std::vector<char const*> argv;
        for (auto& s : args) argv.push_back(s.c_str());
        argv.push_back(nullptr);
        pika::init_params ip;
        if (rp_cb)
            ip.rp_callback = [rp_cb](pika::resource::partitioner& rp,
                                 pika::program_options::variables_map const&) { rp_cb(rp); };
        if (entry)
            pika::start(std::function<int()>(entry), (int) args.size(), argv.data(), ip);
        else
            pika::start(nullptr, (int) args.size(), argv.data(), ip);
        install_crash_handlers();    // pika may have installed its own
    }

    void start_with_pools(RunCtx& ctx, std::vector<PoolSpec> const& pools, std::function<int()> entry)
    {
        int extra = 0;
        for (auto& p : pools) extra += p.threads;
        int64_t dflt = ctx.params.get("rt.workers", 1);
        // --pika:threads counts all pools
        ctx.params.set("rt.workers", dflt + extra);
        std::vector<PoolSpec> spec = pools;
        start(ctx, entry, [spec](pika::resource::partitioner& rp) {
            std::vector<int> left;
            for (auto& p : spec)
            {
                if (p.mode >= 0)
                    rp.create_thread_pool(p.name, (pika::resource::scheduling_policy) p.policy,
                        (pika::threads::scheduler_mode) p.mode);
                else
                    rp.create_thread_pool(p.name, (pika::resource::scheduling_policy) p.policy);
                left.push_back(p.threads);
            }
            size_t cur = 0;
            for (pika::resource::socket const& d : rp.sockets())
                for (pika::resource::core const& c : d.cores())
                    for (pika::resource::pu const& pu : c.pus())
                    {
                        while (cur < spec.size() && left[cur] == 0) cur++;
                        if (cur >= spec.size()) return;
                        rp.add_resource(pu, spec[cur].name);
                        left[cur]--;
                    }
        });
        ctx.params.set("rt.workers", dflt);
    }

    int stop()
    {
        pika::finalize();
        return pika::stop();
    }

    std::string dump()
    {
        auto* rt = pika::detail::get_runtime_ptr();
        if (!rt) return "runtime: none";
        auto& tm = rt->get_thread_manager();
        using st = pika::threads::detail::thread_schedule_state;
        std::string out =
            sfmt("pika: pending=%lld active=%lld suspended=%lld staged=%lld terminated=%lld",
                (long long) tm.get_thread_count(st::pending),
                (long long) tm.get_thread_count(st::active),
                (long long) tm.get_thread_count(st::suspended),
                (long long) tm.get_thread_count(st::staged),
                (long long) tm.get_thread_count(st::terminated));
        // where is pending work? per priority and worker
        using pr = pika::execution::thread_priority;
        std::size_t npools = pika::resource::get_num_thread_pools();
        for (std::size_t pi = 0; pi < npools; pi++)
        {
            auto& pool = pika::resource::get_thread_pool(pi);
            std::size_t nw = pool.get_os_thread_count();
            for (pr p : {pr::low, pr::normal, pr::high})
                for (std::size_t w = 0; w < nw; w++)
                {
                    auto c = pool.get_thread_count(st::pending, p, w, false);
                    auto s2 = pool.get_thread_count(st::staged, p, w, false);
                    if (c || s2)
                        out += sfmt(" [pool %zu prio %d worker %zu: pending %lld staged %lld]", pi, (int) p, w,
                            (long long) c, (long long) s2);
                }
        }
        return out;
    }

}    // namespace vh::pk
