// Common harness utilities: PRNG, parameters, programs, ledger, result reporting.
#pragma once
#include "../sim/sim.h"

#include <cstdarg>
#include <cstdint>
#include <cstdio>
#include <cstring>
#include <string>
#include <utility>
#include <vector>

namespace vh {

    // ---------------------------------------------------------------------------------------------
    struct Rng
    {
        uint64_t s;
        explicit Rng(uint64_t seed)
          : s(seed)
        {
        }
        uint64_t next()
        {
            s += 0x9e3779b97f4a7c15ull;
            uint64_t z = s;
            z = (z ^ (z >> 30)) * 0xbf58476d1ce4e5b9ull;
            z = (z ^ (z >> 27)) * 0x94d049bb133111ebull;
            return z ^ (z >> 31);
        }
        uint64_t below(uint64_t n) { return n ? next() % n : 0; }
        int64_t range(int64_t lo, int64_t hi) { return lo + (int64_t) below((uint64_t) (hi - lo + 1)); }
        bool chance(uint64_t num, uint64_t den) { return below(den) < num; }
        double unit() { return (double) (next() >> 11) / 9007199254740992.0; }
        double logu(double lo, double hi);
        template <typename T>
        T const& pick(std::vector<T> const& v)
        {
            return v[below(v.size())];
        }
    };
    inline uint64_t mix_seed(uint64_t seed, uint64_t stream)
    {
        Rng r(seed * 0x9e3779b97f4a7c15ull + stream * 0xda942042e4dd58b5ull + 1);
        r.next();
        return r.next();
    }

    // ---------------------------------------------------------------------------------------------
    // Parameters: every drawn configuration knob of a run, by name. Replay overrides them.
    struct Params
    {
        std::vector<std::pair<std::string, int64_t>> kv;
        std::vector<std::pair<std::string, int64_t>> forced;    // from a replay file
        bool has(std::string const& k) const;
        int64_t get(std::string const& k, int64_t dflt = 0) const;
        // set a drawn value unless the replay forces another; returns the effective value
        int64_t set(std::string const& k, int64_t v);
        void force(std::string const& k, int64_t v) { forced.emplace_back(k, v); }
    };

    // ---------------------------------------------------------------------------------------------
    struct Op
    {
        int64_t v[8] = {0, 0, 0, 0, 0, 0, 0, 0};
    };
    using Program = std::vector<Op>;

    // ---------------------------------------------------------------------------------------------
    // Ledger: append-only event log; written only by the baton holder => no synchronisation, no
    // schedule point.
    struct Event
    {
        uint64_t seq;
        int tid;
        int kind;
        int64_t a, b, c;
    };
    extern std::vector<Event> g_log;
    struct AtomicSection
    {
        AtomicSection() { sim_atomic_begin(); }
        ~AtomicSection() { sim_atomic_end(); }
        AtomicSection(AtomicSection const&) = delete;
    };
    inline void ev(int kind, int64_t a = 0, int64_t b = 0, int64_t c = 0)
    {
        AtomicSection atomic;
        g_log.push_back(Event{sim_seq(), sim_tid(), kind, a, b, c});
        sim_hash_mix(((uint64_t) kind << 48) ^ ((uint64_t) a << 16) ^ (uint64_t) b);
    }

    // ---------------------------------------------------------------------------------------------
    struct RunCtx
    {
        uint64_t seed = 0;
        bool thorough = false;
        Params params;
        Program program;
        bool program_from_replay = false;
        std::vector<sim_decision> script;
        bool have_script = false;
        bool record = false;
        int out_fd = 1;
        std::string prop;
        std::string sub;    // sub-workload name
    };
    extern RunCtx* g_ctx;
    extern bool g_gdb_on_fail;
    extern char g_trace_path[512];

    // named probe counters → result line
    void probe(char const* name, uint64_t n = 1);
    // add a free-form note to the result line (sample descriptions)
    void note(char const* key, std::string const& val);

    // Report a violation of the current property and end the run.
    [[noreturn]] void violation(char const* cls, char const* fmt, ...) __attribute__((format(printf, 2, 3)));
    // End the run successfully.
    [[noreturn]] void finish_ok();
    // hook run by the failure path (deadlock/budget/crash) to add a state dump
    extern std::string (*g_dump_hook)();

    std::string sfmt(char const* f, ...) __attribute__((format(printf, 1, 2)));

    // draws the simulator configuration into params and returns it
    sim_config draw_sim_config(RunCtx& ctx, uint64_t est_len, unsigned allowed_faults);
    enum
    {
        FAULT_SPURIOUS = 1,
        FAULT_TRYFAIL = 2,
        FAULT_CLOCKJUMP = 4,
        FAULT_STALL = 8,
    };
    void begin_sim(RunCtx& ctx, sim_config const& cfg);
    void install_crash_handlers();

    // workload registry
    struct Workload
    {
        char const* prop;
        char const* name;    // sub-workload
        int weight;          // share of seeds
        void (*run)(RunCtx&);
        void (*preload)();    // optional, runs in the zygote
    };
    void register_workload(Workload const& w);
    std::vector<Workload> const& workloads();
    struct Registrar
    {
        explicit Registrar(Workload const& w) { register_workload(w); }
    };

    // focus symbol support
    std::vector<std::string>& focus_patterns();    // union of all patterns, filled by static initialisers
    void focus_preload(std::vector<std::string> const& patterns);
    // registers the ranges of all preloaded symbols whose name contains one of `pats`; picks a random
    // subset of `k` patterns when k > 0. Returns number of ranges.
    int focus_select(RunCtx& ctx, std::vector<std::string> const& pats, int k);
    void focus_report();    // emit focus hit probes

}    // namespace vh

#define VH_CHECK(cond, cls, ...)                                                                   \
    do {                                                                                           \
        if (!(cond)) ::vh::violation(cls, __VA_ARGS__);                                            \
    } while (0)
