// C12 — a task's context survives suspension, migration and recycling.
#include "parties.hpp"

#include <pika/synchronization/event.hpp>
#include <pika/threading_base/thread_helpers.hpp>

#include <cfenv>
#include <cmath>
#include <memory>
#include <xmmintrin.h>

using namespace vh;
namespace ex = pika::execution::experimental;

namespace {

    std::vector<std::string> const c12_focus = {"coroutine_impl", "rebind", "create_thread_object", "recycle_thread",
        "execution_agent::do_yield", "scheduling_loop", "cleanup_terminated", "get_next_thread", "thread_data"};
    struct FocusInit
    {
        FocusInit()
        {
            for (auto& s : c12_focus) focus_patterns().push_back(s);
        }
    } focus_init;

    // op = [stack class, depth (permille of usable), frame words, yields at depth, leave dirt, fp rounding mode]
    struct TaskRec
    {
        int cls = 0, depth = 0, yields = 0, dirt = 0;
        int frame_words = 16;
        int fp_mode = 0;
        bool current_child = false;
        bool started = false, finished = false;
        uintptr_t stack_lo = 0, stack_hi = 0;
        int migrations = 0;
    };
    std::vector<TaskRec> T;
    int64_t g_size[4];
    int g_finished = 0;
    int g_children_expected = 0, g_children_done = 0;
    bool g_exit_cb_ran[4096];

    struct LiveRange
    {
        uintptr_t lo, hi;
        int tok;
    };
    std::vector<LiveRange> live;

    // floating-point control state: MXCSR rounding control (bits 13-14) and x87 control word rounding
    // control (bits 10-11); both are callee-saved by the ABI, i.e. part of what a task owns
    inline unsigned get_x87cw()
    {
        unsigned short cw;
        asm volatile("fnstcw %0" : "=m"(cw));
        return cw;
    }
    inline void set_x87cw(unsigned v)
    {
        unsigned short cw = (unsigned short) v;
        asm volatile("fldcw %0" : : "m"(cw));
    }
    // rounding control of both units and the x87 precision control
    inline unsigned fp_mode_now() { return ((_mm_getcsr() >> 13) & 3) | (((get_x87cw() >> 8) & 15) << 2); }
    // k = 0..3: rounding mode k in both units; k = 4..7: only the x87 control word changes (rounding mode k-4 and,
    // for 6/7, 53-bit precision control), the MXCSR keeps its control bits
    inline void fp_mode_set(int k)
    {
        if (k < 4)
        {
            _mm_setcsr((_mm_getcsr() & ~0x6000u) | ((unsigned) (k & 3) << 13));
            set_x87cw((get_x87cw() & ~0x0f00u) | 0x0300u | ((unsigned) (k & 3) << 10));
        }
        else
            set_x87cw((get_x87cw() & ~0x0f00u) | ((k & 2) ? 0x0200u : 0x0300u) | ((unsigned) ((k & 1) + 1) << 10));
    }

    uint64_t pat(int tok, int depth, int k) { return 0x9e3779b97f4a7c15ull * (uint64_t) (tok * 7919 + depth * 104729 + k + 1); }

    // recursion with a pattern-filled frame; yields at the deepest point; verifies on the way back
    __attribute__((noinline)) void recurse(int tok, int depth, int max_depth, int words, int yields)
    {
        volatile uint64_t frame[64];
        int w = words > 64 ? 64 : words;
        for (int k = 0; k < w; k++) frame[k] = pat(tok, depth, k);
        if (depth < max_depth)
            recurse(tok, depth + 1, max_depth, words, yields);
        else
        {
            // the task's floating-point control state (rounding mode 0 = the default)
            int fpm = T[(size_t) tok].fp_mode;
            if (fpm) fp_mode_set(fpm);
            // x87-only modes: with and without pending SSE exception flags (the MXCSR as a whole may or may not
            // equal the scheduler's)
            if (fpm >= 4 && (tok & 1)) _mm_setcsr(_mm_getcsr() & ~0x3fu);
            unsigned fp_before = fp_mode_now();
            // live locals: integers and doubles kept across the suspension points
            uint64_t a = pat(tok, 1000, 1), b = pat(tok, 1000, 2), c = pat(tok, 1000, 3);
            double x = (double) (tok + 1) * 1.5, y = std::sqrt((double) (tok + 2)), z = x * y;
            auto id_before = pika::threads::detail::get_self_id();
            std::size_t data_before = pika::this_thread::get_thread_data();
            auto ss_before = pika::this_thread::get_stack_size();
            for (int i = 0; i < yields; i++)
            {
                std::size_t worker_before = pika::get_worker_thread_num();
                pika::this_thread::yield();
                if (pika::get_worker_thread_num() != worker_before)
                {
                    T[(size_t) tok].migrations++;
                    probe("resumed_on_another_worker");
                }
                {
                    unsigned fp_after = fp_mode_now();
                    if (fp_after != fp_before) fp_mode_set(0);    // (the report below formats numbers)
                    VH_CHECK(fp_after == fp_before, "C12.fp_control",
                        "floating-point control state of task %d changed across a yield: rounding control (mxcsr | x87<<2) %u before, "
                        "%u after (task set mode %d)", tok, fp_before, fp_after, fpm);
                    if (fpm) probe(fpm >= 4 ? "x87_only_mode_kept_across_yield" : "fp_mode_kept_across_yield");
                }
                VH_CHECK(a == pat(tok, 1000, 1) && b == pat(tok, 1000, 2) && c == pat(tok, 1000, 3), "C12.locals",
                    "integer locals of task %d changed across a yield", tok);
                VH_CHECK(x == (double) (tok + 1) * 1.5 && y == std::sqrt((double) (tok + 2)) && z == x * y, "C12.fp_locals",
                    "floating point locals of task %d changed across a yield", tok);
                VH_CHECK(pika::threads::detail::get_self_id() == id_before, "C12.identity", "task %d changed its id across a yield", tok);
                VH_CHECK(pika::this_thread::get_thread_data() == data_before, "C12.thread_data",
                    "task-local data of task %d changed across a yield", tok);
                VH_CHECK(pika::this_thread::get_stack_size() == ss_before, "C12.stack_size", "stack size of task %d changed", tok);
            }
            if (fpm) fp_mode_set(0);    // a task leaves with the default state
        }
        for (int k = 0; k < w; k++)
            VH_CHECK(frame[k] == pat(tok, depth, k), "C12.stack_contents",
                "stack frame %d of task %d was overwritten (word %d) while the task was suspended", depth, tok, k);
    }

    void task_body(int tok)
    {
        TaskRec& t = T[(size_t) tok];
        t.started = true;
        // a task on a recycled object starts clean
        VH_CHECK(pika::this_thread::get_thread_data() == 0, "C12.recycled_thread_data",
            "task %d starts with task-local data %zu inherited from an earlier task", tok, pika::this_thread::get_thread_data());
        VH_CHECK(pika::this_thread::interruption_enabled(), "C12.recycled_interruption",
            "task %d starts with interruption disabled (inherited)", tok);
        VH_CHECK(!pika::this_thread::interruption_requested(), "C12.recycled_interruption",
            "task %d starts with an inherited interruption request", tok);
        // the stack of the configured size, disjoint from every other live task's stack
        int64_t size = g_size[t.cls];
        VH_CHECK(pika::this_thread::get_stack_size() == size, "C12.stack_size", "task %d of class %d has stack size %lld, configured %lld",
            tok, t.cls, (long long) pika::this_thread::get_stack_size(), (long long) size);
        if (t.current_child)
        {
            // a child created with thread_stacksize::current runs on a stack of its creator's class
            g_children_expected++;
            int64_t want = size;
            int parent = tok;
            ex::execute(ex::with_stacksize(ex::thread_pool_scheduler{}, pika::execution::thread_stacksize::current), [want, parent] {
                VH_CHECK(pika::this_thread::get_stack_size() == want, "C12.stack_size",
                    "a child created with thread_stacksize::current by task %d (stack %lld) runs on a stack of %lld bytes", parent,
                    (long long) want, (long long) pika::this_thread::get_stack_size());
                // and can really use that much: touch half of it
                volatile char probe_byte = 0;
                int64_t depth = want / 2;
                volatile char* base = &probe_byte;
                for (int64_t off = 4096; off < depth; off += 4096) *(base - off) = (char) off;
                g_children_done++;
                probe("child_with_current_stacksize");
            });
        }
        volatile char marker = 0;
        uintptr_t here = (uintptr_t) &marker;
        // the body runs near the top of its stack: [here - usable, here + slack)
        t.stack_hi = here + 2048;
        t.stack_lo = here - (uintptr_t) (size * 3 / 4);
        for (auto& o : live)
            VH_CHECK(t.stack_hi <= o.lo || t.stack_lo >= o.hi, "C12.stack_overlap",
                "stack of task %d [%lx,%lx) overlaps the stack of live task %d [%lx,%lx)", tok, (unsigned long) t.stack_lo,
                (unsigned long) t.stack_hi, o.tok, (unsigned long) o.lo, (unsigned long) o.hi);
        live.push_back(LiveRange{t.stack_lo, t.stack_hi, tok});
        pika::this_thread::set_thread_data((std::size_t) (tok + 1));
        // usable depth: frames of ~(words*8 + overhead) bytes within 60% of the stack
        int words = t.frame_words;
        int64_t frame_bytes = 64 * 8 + 256;    // recurse() always reserves 64 words, fills `words` of them
        // leave 16 KiB for the runtime, the simulator's schedule points and the checks themselves
        int64_t usable = size - 16384;
        int64_t max_depth = usable > 0 ? (usable * 6 / 10) / frame_bytes : 1;
        int depth = (int) (max_depth * t.depth / 1000);
        if (depth < 1) depth = 1;
        if (depth > 3000) depth = 3000;
        recurse(tok, 0, depth, words, t.yields);
        VH_CHECK(pika::this_thread::get_thread_data() == (std::size_t) (tok + 1), "C12.thread_data", "task-local data lost");
        for (size_t i = 0; i < live.size(); i++)
            if (live[i].tok == tok)
            {
                live[i] = live.back();
                live.pop_back();
                break;
            }
        if (t.dirt & 4)
        {
            // an interruption request that is never delivered (no interruption point follows): the next user
            // of this thread object must not inherit it
            pika::threads::detail::get_thread_id_data(pika::threads::detail::get_self_id())->interrupt(true);
            probe("left_interruption_requested");
        }
        if (t.dirt & 1)
        {
            // leave interruption disabled: the next user of this thread object must not inherit it
            pika::threads::detail::set_thread_interruption_enabled(pika::threads::detail::get_self_id(), false);
            probe("left_interruption_disabled");
        }
        if (t.dirt & 2)
        {
            int cbtok = tok;
            pika::threads::detail::add_thread_exit_callback(pika::threads::detail::get_self_id(), [cbtok] {
                VH_CHECK(!g_exit_cb_ran[cbtok & 4095], "C12.exit_callback_twice", "exit callback of task %d ran twice", cbtok);
                g_exit_cb_ran[cbtok & 4095] = true;
            });
        }
        t.finished = true;
        g_finished++;
    }

    void run_ctx(RunCtx& ctx)
    {
        Rng r(mix_seed(ctx.seed, 1200));
        int ntasks = (int) r.range(3, ctx.thorough ? 60 : 30);
        ctx.params.set("rt.min_thread_count", 2 * ntasks + 16);
        pk::draw_runtime(ctx, 6);
        // recycling: terminated thread objects are reused quickly
        if (r.chance(2, 3))
        {
            ctx.params.set("rt.max_terminated_threads", r.range(1, 4));
            ctx.params.set("rt.min_delete_count", 1);
            ctx.params.set("rt.max_delete_count", r.range(1, 4));
        }
        // pika runs its own start-up and shutdown work on tasks of the large class and logs from
        // small ones: sizes are varied around the defaults, never below what the runtime itself needs
        g_size[0] = ctx.params.set("rt.stack_small", 0x10000 + 0x2000 * (int64_t) r.below(16));
        g_size[1] = ctx.params.set("rt.stack_medium", 0x20000 + 0x4000 * (int64_t) r.below(16));
        g_size[2] = ctx.params.set("rt.stack_large", 0x100000 + 0x20000 * (int64_t) r.below(16));
        g_size[3] = ctx.params.set("rt.stack_huge", 0x400000 + 0x100000 * (int64_t) r.below(8));
        // the notation of the configured sizes: decimal, hexadecimal (what pika's own defaults use) or octal
        ctx.params.set("rt.stack_notation", (int64_t) r.below(3));
        if (!ctx.program_from_replay)
        {
            Program p;
            for (int i = 0; i < ntasks; i++)
            {
                Op op;
                op.v[0] = (int64_t) r.below(4);
                op.v[1] = r.range(10, 1000);
                op.v[2] = r.range(4, 64);
                op.v[3] = r.range(0, 5);
                op.v[4] = r.chance(1, 3) ? (int64_t) r.below(8) : 0;
                op.v[5] = r.chance(1, 3) ? (int64_t) r.below(8) : 0;
                op.v[6] = r.chance(1, 4) ? 1 : 0;    // spawns a child with thread_stacksize::current
                p.push_back(op);
            }
            ctx.program = p;
        }
        sim_config sc = draw_sim_config(ctx, 80000, FAULT_STALL | FAULT_TRYFAIL);
        begin_sim(ctx, sc);
        focus_select(ctx, c12_focus, 3);
        g_dump_hook = +[]() -> std::string { return pk::dump() + sfmt(" | canary tasks: %d of %zu finished", g_finished, T.size()); };
        pk::start(ctx);
        int n = (int) ctx.program.size();
        T.resize((size_t) n);
        live.reserve(256);
        using ts = pika::execution::thread_stacksize;
        ts const classes[4] = {ts::small_, ts::medium, ts::large, ts::huge};
        // waves: later waves reuse the thread objects and stacks of earlier ones
        int wave = (int) r.range(2, 8);
        for (int i = 0; i < n; i++)
        {
            Op const& op = ctx.program[(size_t) i];
            TaskRec& t = T[(size_t) i];
            t.cls = (int) (op.v[0] & 3);
            t.depth = (int) (op.v[1] < 1 ? 1 : op.v[1] > 1000 ? 1000 : op.v[1]);
            t.frame_words = (int) (op.v[2] < 1 ? 1 : op.v[2] > 64 ? 64 : op.v[2]);
            t.yields = (int) (op.v[3] & 7);
            t.dirt = (int) (op.v[4] & 7);
            t.fp_mode = (int) (op.v[5] & 7);
            t.current_child = (op.v[6] & 1) != 0;
            ex::execute(ex::with_stacksize(ex::thread_pool_scheduler{}, classes[t.cls]), [i] { task_body(i); });
            if ((i + 1) % wave == 0) pika::wait();
        }
        while (g_finished < n || g_children_done < g_children_expected) main_pause(3000000);
        sim_quiesce(3000000);
        pika::wait();
        for (int i = 0; i < n; i++)
            VH_CHECK(T[(size_t) i].finished, "C12.task_lost", "canary task %d did not finish", i);
        for (int i = 0; i < n; i++)
            if (T[(size_t) i].dirt & 2)
                VH_CHECK(g_exit_cb_ran[i & 4095], "C12.exit_callback_lost", "exit callback of task %d never ran", i);
        probe("canary_tasks", (uint64_t) n);
        focus_report();
        pk::stop();
    }

    Registrar r1(Workload{"C12", "canary", 100, run_ctx, pk::preload});

}    // namespace
