// Heap holder for a (non-movable) operation state: constructed in place from connect().
#pragma once
#include <pika/execution.hpp>

#include <memory>
#include <utility>

namespace vh {
    template <typename S, typename R>
    struct OpHolder
    {
        using op_type = decltype(pika::execution::experimental::connect(std::declval<S>(), std::declval<R>()));
        op_type op;
        OpHolder(S&& s, R&& r)
          : op(pika::execution::experimental::connect(std::move(s), std::move(r)))
        {
        }
        void start() noexcept { pika::execution::experimental::start(op); }
    };
    template <typename S, typename R>
    std::shared_ptr<OpHolder<std::decay_t<S>, std::decay_t<R>>> make_op(S&& s, R&& r)
    {
        return std::make_shared<OpHolder<std::decay_t<S>, std::decay_t<R>>>(std::move(s), std::move(r));
    }
}    // namespace vh
