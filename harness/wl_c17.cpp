// C17 — concurrent queues return every element exactly once. (no runtime: plain simulated OS threads)
#include "common.hpp"

#include <pika/concurrency/deque.hpp>
#include <pika/concurrency/detail/contiguous_index_queue.hpp>
#include <pika/schedulers/lockfree_queue_backends.hpp>

#include <algorithm>
#include <deque>
#include <functional>
#include <map>
#include <optional>
#include <set>
#include <thread>
#include <vector>

using namespace vh;

namespace {

    std::vector<std::string> const c17_focus = {"contiguous_index_queue", "deque<", "stabilize", "freelist",
        "ConcurrentQueue", "ImplicitProducer", "tagged_ptr_pair"};
    struct FocusInit
    {
        FocusInit()
        {
            for (auto& s : c17_focus) focus_patterns().push_back(s);
        }
    } focus_init;

    // one recorded operation of a concurrent history
    struct HOp
    {
        int thread;
        int kind;         // container specific
        int64_t arg;      // pushed value
        bool ok;          // result: success
        int64_t result;   // popped value
        uint64_t inv, ret;
    };
    std::vector<HOp> H;

    // ---------------------------------------------------------------------------------------------
    // Small linearizability checker (Wing & Gong style DFS with memoisation on (done-set, model)).
    template <typename Model>
    bool linearizable(std::vector<HOp> const& h, Model const& init)
    {
        size_t n = h.size();
        if (n > 24) return true;    // bounded: longer histories are only checked for conservation
        std::set<std::pair<uint32_t, std::string>> seen;
        std::function<bool(uint32_t, Model const&)> rec = [&](uint32_t done, Model const& m) -> bool {
            if (done == (n == 32 ? 0xffffffffu : ((1u << n) - 1))) return true;
            auto key = std::make_pair(done, m.key());
            if (!seen.insert(key).second) return false;
            // earliest response among pending ops
            uint64_t min_ret = ~0ull;
            for (size_t i = 0; i < n; i++)
                if (!(done & (1u << i)) && h[i].ret < min_ret) min_ret = h[i].ret;
            for (size_t i = 0; i < n; i++)
            {
                if (done & (1u << i)) continue;
                if (h[i].inv > min_ret) continue;    // some pending op returned before this one began
                Model m2 = m;
                if (!m2.apply(h[i])) continue;
                if (rec(done | (1u << i), m2)) return true;
            }
            return false;
        };
        return rec(0, init);
    }

    std::string describe(std::vector<HOp> const& h)
    {
        std::string s;
        for (auto& o : h)
            s += sfmt("[T%d k%d arg=%lld ok=%d res=%lld %llu-%llu]", o.thread, o.kind, (long long) o.arg, (int) o.ok,
                (long long) o.result, (unsigned long long) o.inv, (unsigned long long) o.ret);
        return s.substr(0, 1500);
    }

    void run_threads(int nthreads, std::function<void(int)> body, bool last = true)
    {
        std::vector<std::thread> th;
        for (int t = 0; t < nthreads; t++) th.emplace_back([t, &body] { body(t); });
        for (auto& t : th) t.join();    // lock-free operations: nothing to wait for but the threads
        if (last) sim_quiesce(2000000);
    }

    // =============================================================================================
    // contiguous_index_queue
    struct IdxModel
    {
        int64_t first, last;
        std::string key() const { return sfmt("%lld:%lld", (long long) first, (long long) last); }
        bool apply(HOp const& o)
        {
            bool empty = first >= last;
            if (!o.ok) return empty;
            if (empty) return false;
            if (o.kind == 0)
            {
                if (o.result != first) return false;
                first++;
            }
            else
            {
                if (o.result != last - 1) return false;
                last--;
            }
            return true;
        }
    };

    void run_index_queue(RunCtx& ctx)
    {
        Rng r(mix_seed(ctx.seed, 170));
        int nthreads = (int) ctx.params.set("c17.threads", r.range(1, 4));
        int64_t first = ctx.params.set("c17.first", r.range(0, 50));
        int64_t len = ctx.params.set("c17.len", r.range(0, 20));
        if (!ctx.program_from_replay)
        {
            Program p;
            int nops = (int) r.range(1, nthreads == 1 ? 30 : 22);
            for (int i = 0; i < nops; i++)
            {
                Op op;
                op.v[0] = (int64_t) r.below((uint64_t) nthreads);
                op.v[1] = (int64_t) r.below(2);    // 0 pop_left, 1 pop_right
                p.push_back(op);
            }
            ctx.program = p;
        }
        sim_config sc = draw_sim_config(ctx, 2000, FAULT_STALL);
        begin_sim(ctx, sc);
        focus_select(ctx, c17_focus, 2);
        static pika::concurrency::detail::contiguous_index_queue<std::uint32_t> q(
            (std::uint32_t) first, (std::uint32_t) (first + len));
        Program const& prog = ctx.program;
        run_threads(nthreads, [&prog](int me) {
            for (auto const& op : prog)
            {
                if (op.v[0] != me) continue;
                HOp h{me, (int) (op.v[1] & 1), 0, false, 0, sim_seq(), 0};
                std::optional<std::uint32_t> v = h.kind == 0 ? q.pop_left() : q.pop_right();    // under test
                AtomicSection a;    // harness bookkeeping
                h.ret = sim_seq();
                h.ok = v.has_value();
                h.result = v ? (int64_t) *v : 0;
                H.push_back(h);
            }
        });
        // conservation
        std::set<int64_t> got;
        for (auto& o : H)
            if (o.ok)
            {
                VH_CHECK(o.result >= first && o.result < first + len, "C17.index.invented", "popped %lld outside [%lld,%lld)",
                    (long long) o.result, (long long) first, (long long) (first + len));
                VH_CHECK(got.insert(o.result).second, "C17.index.duplicate", "index %lld popped twice", (long long) o.result);
            }
        // drain: a pop on a non-empty quiescent queue succeeds; exactly the remainder comes out
        int64_t remaining = len - (int64_t) got.size();
        for (int64_t i = 0; i < remaining; i++)
        {
            auto v = (i & 1) ? q.pop_left() : q.pop_right();
            VH_CHECK(v.has_value(), "C17.index.lost", "queue empty with %lld indices never popped", (long long) (remaining - i));
            VH_CHECK(got.insert((int64_t) *v).second && (int64_t) *v >= first && (int64_t) *v < first + len,
                "C17.index.duplicate", "drain popped %lld again", (long long) *v);
        }
        VH_CHECK(!q.pop_left().has_value() && !q.pop_right().has_value() && q.empty(), "C17.index.invented",
            "queue not empty after all indices were popped");
        VH_CHECK(linearizable(H, IdxModel{first, first + len}), "C17.index.not_linearizable",
            "history has no linearization (left ascending / right descending): %s", describe(H).c_str());
        probe(nthreads == 1 ? "index.sequential" : "index.concurrent");
        focus_report();
    }

    // =============================================================================================
    // deque: kinds 0 push_left, 1 push_right, 2 pop_left, 3 pop_right
    struct DequeModel
    {
        std::deque<int64_t> d;
        std::string key() const
        {
            std::string s;
            for (auto v : d) s += sfmt("%lld,", (long long) v);
            return s;
        }
        bool apply(HOp const& o)
        {
            switch (o.kind)
            {
            case 0: d.push_front(o.arg); return o.ok;
            case 1: d.push_back(o.arg); return o.ok;
            case 2:
                if (!o.ok) return d.empty();
                if (d.empty() || d.front() != o.result) return false;
                d.pop_front();
                return true;
            default:
                if (!o.ok) return d.empty();
                if (d.empty() || d.back() != o.result) return false;
                d.pop_back();
                return true;
            }
        }
    };

    void run_deque(RunCtx& ctx)
    {
        Rng r(mix_seed(ctx.seed, 171));
        int nthreads = (int) ctx.params.set("c17.threads", r.range(1, 3));
        int64_t pool = ctx.params.set("c17.initial_nodes", r.chance(1, 2) ? r.range(1, 4) : 128);
        if (!ctx.program_from_replay)
        {
            Program p;
            int nops = (int) r.range(2, nthreads == 1 ? 40 : 22);
            for (int i = 0; i < nops; i++)
            {
                Op op;
                op.v[0] = (int64_t) r.below((uint64_t) nthreads);
                op.v[1] = (int64_t) r.below(4);
                p.push_back(op);
            }
            ctx.program = p;
        }
        sim_config sc = draw_sim_config(ctx, 5000, FAULT_STALL);
        begin_sim(ctx, sc);
        focus_select(ctx, c17_focus, 2);
        static pika::concurrency::detail::deque<int64_t> dq((std::size_t) pool);
        Program const& prog = ctx.program;
        static int64_t next_token = 1000;
        run_threads(nthreads, [&prog](int me) {
            for (auto const& op : prog)
            {
                if (op.v[0] != me) continue;
                HOp h{me, (int) (op.v[1] & 3), 0, false, 0, 0, 0};
                {
                    AtomicSection a;
                    if (h.kind < 2) h.arg = next_token++;
                    h.inv = sim_seq();
                }
                switch (h.kind)    // under test
                {
                case 0: h.ok = dq.push_left(h.arg); break;
                case 1: h.ok = dq.push_right(h.arg); break;
                case 2: h.ok = dq.pop_left(h.result); break;
                default: h.ok = dq.pop_right(h.result); break;
                }
                AtomicSection a;
                h.ret = sim_seq();
                H.push_back(h);
            }
        });
        std::set<int64_t> pushed, popped;
        for (auto& o : H)
            if (o.kind < 2)
            {
                VH_CHECK(o.ok, "C17.deque.push_failed", "push failed");
                pushed.insert(o.arg);
            }
        for (auto& o : H)
            if (o.kind >= 2 && o.ok)
            {
                VH_CHECK(pushed.count(o.result), "C17.deque.invented", "popped %lld which was never pushed", (long long) o.result);
                VH_CHECK(popped.insert(o.result).second, "C17.deque.duplicate", "element %lld popped twice", (long long) o.result);
            }
        size_t remaining = pushed.size() - popped.size();
        for (size_t i = 0; i < remaining; i++)
        {
            int64_t v = 0;
            bool ok = (i & 1) ? dq.pop_left(v) : dq.pop_right(v);
            VH_CHECK(ok, "C17.deque.lost", "deque empty with %zu elements never popped", remaining - i);
            VH_CHECK(pushed.count(v) && popped.insert(v).second, "C17.deque.duplicate", "drain popped %lld (invented or twice)", (long long) v);
        }
        int64_t v = 0;
        VH_CHECK(!dq.pop_left(v) && !dq.pop_right(v) && dq.empty(), "C17.deque.invented", "deque not empty after the drain");
        VH_CHECK(linearizable(H, DequeModel{}), "C17.deque.not_linearizable", "history has no linearization: %s",
            describe(H).c_str());
        probe(nthreads == 1 ? "deque.sequential" : "deque.concurrent");
        focus_report();
    }

    // =============================================================================================
    // scheduler queue back-ends: kinds 0 push, 1 push(other_end), 2 pop(steal=false), 3 pop(steal=true)
    template <typename Backend>
    void run_backend(RunCtx& ctx, int which)
    {
        Rng r(mix_seed(ctx.seed, 172));
        // (one run in ten: more producer threads than the moodycamel queue's initial producer table has room for)
        int nthreads = (int) ctx.params.set("c17.threads", r.chance(9, 10) ? r.range(1, 4) : r.range(17, 26));
        // one run in four: two generations of threads on one queue (the second starts after the first has exited)
        int const nwaves = (int) ctx.params.set("c17.thread_generations", r.chance(1, 4) ? 2 : 1);
        if (!ctx.program_from_replay)
        {
            Program p;
            int nops = (int) r.range(2, 40);
            if (nthreads > 4) nops = (int) r.range((uint64_t) nthreads, 60);
            // backlog shape: a burst of pushes, a partial drain (so that the queue's internal block ring has been
            // rotated), then a backlog larger than the initial internal capacity (32 blocks of 32 elements for
            // the moodycamel queue), followed by ordinary traffic. v[2] = repeat count of an op (0: once).
            if (ctx.params.set("c17.backlog", r.chance(1, 6) ? 1 : 0) != 0)
            {
                int64_t a = (int64_t) r.range(33, 700), b = (int64_t) r.range(1, (uint64_t) a), c2 = (int64_t) r.range(900, 2200);
                int64_t owner = (int64_t) r.below((uint64_t) nthreads);
                int64_t const seq[3][2] = {{0, a}, {2 + (int64_t) r.below(2), b}, {(int64_t) r.below(2), c2}};
                for (auto const& s : seq)
                {
                    Op op;
                    op.v[0] = r.chance(3, 4) ? owner : (int64_t) r.below((uint64_t) nthreads);
                    op.v[1] = s[0];
                    op.v[2] = s[1];
                    p.push_back(op);
                }
                nops = (int) r.range(2, 16);
            }
            for (int i = 0; i < nops; i++)
            {
                Op op;
                op.v[0] = (int64_t) r.below((uint64_t) nthreads);
                op.v[1] = (int64_t) r.below(4);
                if (r.chance(1, 12)) op.v[2] = (int64_t) r.range(2, 80);
                if (nthreads > 4 && i < nthreads)
                {
                    op.v[0] = i;    // every thread enqueues at least once
                    op.v[1] = (int64_t) r.below(2);
                }
                p.push_back(op);
            }
            for (auto& op : p) op.v[3] = (int64_t) r.below((uint64_t) nwaves);
            if (nwaves > 1 && nthreads <= 4)
            {
                // every thread of the first generation has pushed (so that the queue keeps a producer record for it
                // when it exits) and every thread of the second generation opens with a few single pushes (all of
                // them look for a producer record at the same time, then use theirs side by side)
                Program q;
                for (int t = 0; t < nthreads; t++)
                {
                    Op a;
                    a.v[0] = t;
                    a.v[1] = (int64_t) r.below(2);
                    a.v[3] = 0;
                    q.push_back(a);
                    int const k = (int) r.range(1, 3);
                    for (int j = 0; j < k; j++)
                    {
                        Op b;
                        b.v[0] = t;
                        b.v[1] = 0;
                        b.v[3] = 1;
                        q.push_back(b);
                    }
                }
                q.insert(q.end(), p.begin(), p.end());
                p = q;
            }
            ctx.program = p;
        }
        sim_config sc = draw_sim_config(ctx, 8000, FAULT_STALL);
        begin_sim(ctx, sc);
        focus_select(ctx, c17_focus, 2);
        static Backend q(8);
        Program const& prog = ctx.program;
        static int64_t next_token = 1;
        for (int wave = 0; wave < nwaves; wave++)
        run_threads(nthreads, [&prog, wave, nwaves, many_threads = nthreads > 4](int me) {
            for (auto const& op : prog)
            {
                if (op.v[0] != me) continue;
                if (nwaves > 1 && (op.v[3] & 1) != wave) continue;
                int64_t const reps = op.v[2] > 1 ? op.v[2] : 1;
                for (int64_t rep = 0; rep < reps; rep++)
                {
                // all but the last three repetitions of a burst run without preemption (a legal schedule: the
                // operations are lock-free) so that big backlogs stay affordable
                std::optional<AtomicSection> unpreempted;
                // (not with many producer threads: there the moodycamel queue grows its producer table, and an enqueue
                // that meets a table being grown by a preempted thread waits for it)
                if (rep + 3 < reps && !many_threads) unpreempted.emplace();
                HOp h{me, (int) (op.v[1] & 3), 0, false, 0, 0, 0};
                {
                    AtomicSection a;
                    if (h.kind < 2) h.arg = next_token++;
                    h.inv = sim_seq();
                }
                int64_t tmp = 0;
                switch (h.kind)
                {
                case 0: h.ok = q.push((int64_t*) h.arg, false); break;
                case 1: h.ok = q.push((int64_t*) h.arg, true); break;
                case 2:
                {
                    int64_t* v = nullptr;
                    h.ok = q.pop(v, false);
                    tmp = (int64_t) v;
                    break;
                }
                default:
                {
                    int64_t* v = nullptr;
                    h.ok = q.pop(v, true);
                    tmp = (int64_t) v;
                    break;
                }
                }
                AtomicSection a;
                h.result = tmp;
                h.ret = sim_seq();
                H.push_back(h);
                }
            }
        }, wave + 1 == nwaves);
        std::set<int64_t> pushed, popped;
        for (auto& o : H)
            if (o.kind < 2)
            {
                VH_CHECK(o.ok, "C17.backend.push_failed", "push failed");
                pushed.insert(o.arg);
            }
        for (auto& o : H)
            if (o.kind >= 2 && o.ok)
            {
                VH_CHECK(pushed.count(o.result), "C17.backend.invented", "popped %lld which was never pushed", (long long) o.result);
                VH_CHECK(popped.insert(o.result).second, "C17.backend.duplicate", "element %lld popped twice", (long long) o.result);
            }
        // single-threaded: the stated order of each back-end
        // (one thread ever: two generations of one thread each are two producers, between which the moodycamel
        // queue keeps no order)
        if (nthreads == 1 && nwaves == 1)
        {
            std::deque<int64_t> m;
            for (auto& o : H)
            {
                // fifo: push back, pop front. lifo / abp: see lockfree_queue_backends.hpp
                if (which == 0)
                {
                    if (o.kind < 2)
                        m.push_back(o.arg);
                    else if (o.ok)
                    {
                        VH_CHECK(!m.empty() && m.front() == o.result, "C17.backend.order", "fifo popped %lld, expected %lld",
                            (long long) o.result, m.empty() ? -1ll : (long long) m.front());
                        m.pop_front();
                    }
                    else
                        VH_CHECK(m.empty(), "C17.backend.pop_failed", "pop failed on a non-empty queue");
                }
                else
                {
                    // deque based: left = front. lifo: push->left (other_end->right), pop->left.
                    // abp_fifo: push->left, pop(steal)->left, pop(!steal)->right.
                    // abp_lifo: push->left (other_end->right), pop(steal)->right, pop(!steal)->left.
                    bool push_right = (which == 1 || which == 3) && o.kind == 1;
                    bool pop_right = (which == 2 && o.kind == 2) || (which == 3 && o.kind == 3);
                    if (o.kind < 2)
                    {
                        if (push_right)
                            m.push_back(o.arg);
                        else
                            m.push_front(o.arg);
                    }
                    else if (o.ok)
                    {
                        int64_t want = pop_right ? (m.empty() ? -1 : m.back()) : (m.empty() ? -1 : m.front());
                        VH_CHECK(!m.empty() && want == o.result, "C17.backend.order", "back-end %d popped %lld, expected %lld",
                            which, (long long) o.result, (long long) want);
                        if (pop_right)
                            m.pop_back();
                        else
                            m.pop_front();
                    }
                    else
                        VH_CHECK(m.empty(), "C17.backend.pop_failed", "pop failed on a non-empty queue");
                }
            }
        }
        size_t remaining = pushed.size() - popped.size();
        if (remaining > 1024) probe("backend.backlog_over_initial_capacity");
        for (size_t i = 0; i < remaining; i++)
        {
            std::optional<AtomicSection> unpreempted;
            if (remaining > 64) unpreempted.emplace();
            int64_t* v = nullptr;
            bool ok = q.pop(v, (i & 1) != 0);
            VH_CHECK(ok, "C17.backend.lost", "queue empty with %zu elements never popped", remaining - i);
            VH_CHECK(pushed.count((int64_t) v) && popped.insert((int64_t) v).second, "C17.backend.duplicate",
                "drain popped %lld (invented or twice)", (long long) (int64_t) v);
        }
        int64_t* v = nullptr;
        VH_CHECK(!q.pop(v, false) && !q.pop(v, true), "C17.backend.invented", "queue not empty after the drain");
        probe(sfmt("backend%d.%s", which, nthreads == 1 ? "sequential" : "concurrent").c_str());
        if (nthreads > 16) probe("backend.more_than_16_producer_threads");
        if (nwaves > 1) probe("backend.two_thread_generations");
        focus_report();
    }

    using namespace pika::threads::detail;
    void run_fifo(RunCtx& c) { run_backend<lockfree_fifo_backend<int64_t*>>(c, 0); }
    void run_lifo(RunCtx& c) { run_backend<lockfree_lifo_backend<int64_t*>>(c, 1); }
    void run_abp_fifo(RunCtx& c) { run_backend<lockfree_abp_fifo_backend<int64_t*>>(c, 2); }
    void run_abp_lifo(RunCtx& c) { run_backend<lockfree_abp_lifo_backend<int64_t*>>(c, 3); }

    Registrar r1(Workload{"C17", "index_queue", 25, run_index_queue, nullptr});
    Registrar r2(Workload{"C17", "deque", 30, run_deque, nullptr});
    Registrar r3(Workload{"C17", "fifo_backend", 15, run_fifo, nullptr});
    Registrar r4(Workload{"C17", "lifo_backend", 10, run_lifo, nullptr});
    Registrar r5(Workload{"C17", "abp_fifo_backend", 10, run_abp_fifo, nullptr});
    Registrar r6(Workload{"C17", "abp_lifo_backend", 10, run_abp_lifo, nullptr});

}    // namespace
