// C14 — stop_token: one winning stop request, each callback exactly once.
#include "parties.hpp"

#include <pika/stop_token.hpp>

#include <memory>
#include <optional>

using namespace vh;

namespace {

    std::vector<std::string> const c14_focus = {"stop_state", "stop_callback", "stop_source", "stop_token", "request_stop", "remove_callback", "add_callback"};
    struct FocusInit
    {
        FocusInit()
        {
            for (auto& s : c14_focus) focus_patterns().push_back(s);
        }
    } focus_init;


    enum
    {
        OP_SRC_COPY = 1,       // a = state: copy a source of that state into a new local slot
        OP_SRC_DESTROY = 2,    // destroy the newest local source (never the last global one of a state while others race)
        OP_SRC_MOVE = 3,       // move newest local source into a new slot
        OP_SRC_ASSIGN = 4,     // copy-assign a source of state a over the newest local source
        OP_SRC_SWAP = 5,       // swap the two newest local sources
        OP_TOKEN_CHECK = 6,    // a = state: get a token, check stop_requested/stop_possible against the model
        OP_CB_CONSTRUCT = 7,   // a = state, b = callback id, c = action inside callback
        OP_CB_DESTROY = 8,     // b = callback id
        OP_REQUEST_STOP = 9,   // a = state
        OP_YIELD = 10,
        OP_SRC_MOVE_ASSIGN = 11,    // move-assign the newest local source onto the second newest (same or another state), or onto itself
    };
    enum
    {
        CBA_NONE = 0,
        CBA_DESTROY_SELF = 1,
        CBA_DESTROY_OTHER = 2,    // destroys callback (id+1)
        CBA_YIELD = 3,
    };
    constexpr int MAXCB = 16;
    constexpr int NSTATES = 2;

    struct CbRec
    {
        int state = 0;
        int action = 0;
        int count = 0;
        bool running = false;
        int runner_tid = -1;    // simulated thread that executes the callback
        bool constructed = false;
        bool destroyed = false;
        bool destroy_started = false;
        uint64_t ctor_inv = 0, ctor_ret = 0, dtor_inv = 0, dtor_ret = 0, cb_start = 0, cb_end = 0;
        int dtor_tid = -1;
        int creator = -1, destroyer = -1;
        bool destroy_claimed = false;
    };
    struct StateRec
    {
        int winners = 0;
        uint64_t win_inv = 0, win_ret = 0;
        int live_sources = 0;     // lower bound of the number of stop_sources of the state (changed before a source goes, after one comes)
        int upper_sources = 0;    // upper bound (changed before a source comes, after one has gone)
        int inflight_src_ops = 0;
        bool requested_inv = false;
    };
    CbRec C[MAXCB];
    StateRec St[NSTATES];
    bool g_party_os[64];

    struct CbFn;
    using callback_t = pika::stop_callback<CbFn>;
    std::optional<callback_t>* cbs = nullptr;    // MAXCB slots

    void destroy_callback(int j, int me);

    struct CbFn
    {
        int j;
        void operator()() const noexcept
        {
            int const j = this->j;    // `this` may be destroyed from inside the callback
            CbRec& c = C[j];
            VH_CHECK(!c.destroyed, "C14.callback_after_destruction",
                "callback %d invoked after its destructor returned", j);
            c.count++;
            VH_CHECK(c.count == 1, "C14.callback_twice", "callback %d invoked %d times", j, c.count);
            c.running = true;
            c.runner_tid = sim_tid();
            c.cb_start = sim_seq();
            ev(20, j);
            switch (c.action)
            {
            case CBA_DESTROY_SELF:
                destroy_callback(j, -1);
                probe("cb.destroy_self");
                break;
            case CBA_DESTROY_OTHER:
                if (j + 1 < MAXCB && C[j + 1].constructed && !C[j + 1].destroy_claimed && C[j + 1].state == c.state)
                {
                    destroy_callback(j + 1, -1);
                    probe("cb.destroy_other_from_callback");
                }
                break;
            case CBA_YIELD:
                for (int i = 0; i < 2; i++)
                {
                    if (pika::threads::detail::get_self_ptr())
                        pika::this_thread::yield();
                    else
                        std::this_thread::yield();
                }
                break;
            default:
                break;
            }
            VH_CHECK(!c.destroyed || c.action == CBA_DESTROY_SELF, "C14.callback_after_destruction",
                "callback %d still running after its destructor returned", j);
            c.cb_end = sim_seq();
            c.running = false;
        }
    };

    void destroy_callback(int j, int /*me*/)
    {
        CbRec& c = C[j];
        if (c.destroy_claimed) return;
        c.destroy_claimed = true;
        c.destroy_started = true;
        c.dtor_inv = sim_seq();
        c.dtor_tid = sim_tid();
        bool const was_running = c.running;
        int const runner = c.runner_tid;
        cbs[j].reset();
        c.dtor_ret = sim_seq();
        // a destructor called on another thread waits for the running callback; on the thread that
        // runs the callback it returns without waiting
        if (c.running)
            VH_CHECK(c.runner_tid == sim_tid(), "C14.destructor_did_not_wait",
                "destructor of callback %d returned on thread T%d while the callback is still running on "
                "thread T%d",
                j, sim_tid(), c.runner_tid);
        if (was_running && runner != sim_tid()) probe("cb.dtor_waited_for_running_callback");
        c.destroyed = true;
        ev(21, j);
    }

    struct Local
    {
        std::vector<pika::stop_source> src;
        std::vector<int> src_state;    // model: which state each local source refers to
    };

    pika::stop_source* base_src = nullptr;    // NSTATES sources kept alive by main until the end
    // "orphan" runs: main keeps only a token per state; every party starts with one source per state of its own and all
    // further sources descend from those, so that a state can lose its last source while tokens and callbacks live on
    bool g_orphan = false;
    pika::stop_token* base_tok = nullptr;
    std::vector<std::vector<pika::stop_source>> seed_src;

    void run_party(Program const& prog, int me, bool os)
    {
        Local L;
        if (g_orphan)
            for (int s = 0; s < NSTATES; s++)
            {
                L.src.push_back(std::move(seed_src[(size_t) me][(size_t) s]));
                L.src_state.push_back(s);
            }
        // the source through which this party reaches state s (orphan runs: its own newest one, if it has any left)
        auto src_of = [&L](int s) -> pika::stop_source* {
            if (!g_orphan) return &base_src[s];
            for (size_t i = L.src.size(); i-- > 0;)
                if (L.src_state[i] == s) return &L.src[i];
            return nullptr;
        };
        auto token_of = [](int s) { return g_orphan ? base_tok[s] : base_src[s].get_token(); };
        auto yield1 = [os] {
            if (os)
                std::this_thread::yield();
            else
                pika::this_thread::yield();
        };
        for (auto const& op : prog)
        {
            if (op.v[0] != me) continue;
            int s = (int) (((op.v[2] % NSTATES) + NSTATES) % NSTATES);
            int j = (int) (((op.v[3] % MAXCB) + MAXCB) % MAXCB);
            switch (op.v[1])
            {
            case OP_SRC_COPY:
                if (pika::stop_source* from = src_of(s))
                {
                    St[s].inflight_src_ops++;
                    St[s].upper_sources++;
                    pika::stop_source copy(*from);
                    L.src.push_back(std::move(copy));
                    L.src_state.push_back(s);
                    St[s].live_sources++;
                    St[s].inflight_src_ops--;
                }
                break;
            case OP_SRC_DESTROY:
                if (!L.src.empty())
                {
                    int ss = L.src_state.back();
                    St[ss].inflight_src_ops++;
                    St[ss].live_sources--;
                    L.src.pop_back();
                    L.src_state.pop_back();
                    St[ss].upper_sources--;
                    if (g_orphan && St[ss].upper_sources == 0) probe("src.last_source_of_state_destroyed");
                    St[ss].inflight_src_ops--;
                }
                break;
            case OP_SRC_MOVE:
                if (!L.src.empty())
                {
                    int ss = L.src_state.back();
                    St[ss].inflight_src_ops++;
                    pika::stop_source moved(std::move(L.src.back()));
                    L.src.back() = std::move(moved);    // move-assign back: count unchanged
                    St[ss].inflight_src_ops--;
                    VH_CHECK(L.src.back().stop_possible(), "C14.stop_possible", "moved source lost its state");
                }
                break;
            case OP_SRC_ASSIGN:
                if (pika::stop_source* from = L.src.empty() ? nullptr : src_of(s))
                {
                    int old = L.src_state.back();
                    St[old].inflight_src_ops++;
                    St[s].inflight_src_ops++;
                    St[s].upper_sources++;
                    St[old].live_sources--;
                    L.src.back() = *from;    // copy-assign: old state loses one source, s gains one (possibly onto itself)
                    St[s].live_sources++;
                    St[old].upper_sources--;
                    L.src_state.back() = s;
                    St[old].inflight_src_ops--;
                    St[s].inflight_src_ops--;
                    probe("src.copy_assign");
                }
                break;
            case OP_SRC_MOVE_ASSIGN:
                if (L.src.size() >= 2)
                {
                    size_t n = L.src.size();
                    int from = L.src_state[n - 1], old = L.src_state[n - 2];
                    St[old].inflight_src_ops++;
                    St[from].inflight_src_ops++;
                    St[old].live_sources--;
                    L.src[n - 2] = std::move(L.src[n - 1]);    // the overwritten state loses one source
                    L.src_state[n - 2] = from;
                    L.src.pop_back();    // moved-from: owns nothing
                    L.src_state.pop_back();
                    St[old].upper_sources--;
                    St[old].inflight_src_ops--;
                    St[from].inflight_src_ops--;
                    VH_CHECK(L.src.back().stop_possible(), "C14.stop_possible", "move-assigned source lost its state");
                    probe(from == old ? "src.move_assign_same_state" : "src.move_assign");
                }
                else if (L.src.size() == 1)
                {
                    // self move-assignment leaves the source valid but unspecified: the model accepts either
                    // "still owns its state" or "empty", nothing else may change
                    int ss = L.src_state.back();
                    St[ss].inflight_src_ops++;
                    pika::stop_source& self = L.src.back();
                    self = std::move(self);
                    if (!self.stop_possible() && !(St[ss].winners > 0))
                    {
                        // it let go of its state: account for it as destroyed
                        St[ss].live_sources--;
                        L.src.pop_back();
                        L.src_state.pop_back();
                        St[ss].upper_sources--;
                    }
                    St[ss].inflight_src_ops--;
                    probe("src.self_move_assign");
                }
                break;
            case OP_SRC_SWAP:
                if (L.src.size() >= 2)
                {
                    size_t n = L.src.size();
                    L.src[n - 1].swap(L.src[n - 2]);
                    std::swap(L.src_state[n - 1], L.src_state[n - 2]);
                }
                break;
            case OP_TOKEN_CHECK:
            {
                pika::stop_token tok = token_of(s);
                bool won = St[s].winners > 0 && St[s].win_ret != 0;    // a winner has returned
                bool const none_left = St[s].upper_sources == 0, never_requested = !St[s].requested_inv;
                bool req = tok.stop_requested();
                if (won)
                    VH_CHECK(req, "C14.token_not_stopped",
                        "token of state %d reports stop_requested()==false after request_stop() returned true", s);
                if (!St[s].requested_inv)
                    VH_CHECK(!req, "C14.token_stopped_early", "token reports stop without any request_stop call");
                if (!g_orphan)
                    VH_CHECK(tok.stop_possible(), "C14.stop_possible",
                        "stop_possible()==false while a stop_source for the state exists");
                else
                {
                    // (no source can come back once the last one is gone: copies are taken from sources only)
                    bool const possible = tok.stop_possible();
                    if (won || St[s].live_sources > 0)
                        VH_CHECK(possible, "C14.stop_possible", "stop_possible()==false for state %d although %s", s,
                            won ? "stop was requested" : "a stop_source for it still exists");
                    if (none_left && never_requested)
                    {
                        VH_CHECK(!possible, "C14.stop_possible",
                            "stop_possible()==true for state %d: every stop_source is gone and stop was never requested", s);
                        probe("token.checked_after_last_source");
                    }
                }
                break;
            }
            case OP_CB_CONSTRUCT:
            {
                CbRec& c = C[j];
                if (c.creator != -1) break;    // slot already used
                c.creator = me;
                c.state = s;
                c.action = (int) (((op.v[4] % 4) + 4) % 4);
                c.ctor_inv = sim_seq();
                pika::stop_token tok = token_of(s);
                bool stopped_before = St[s].win_ret != 0;
                if (g_orphan && stopped_before && St[s].upper_sources == 0) probe("cb.registered_after_stop_and_last_source");
                cbs[j].emplace(tok, CbFn{j});
                c.ctor_ret = sim_seq();
                c.constructed = true;
                if (stopped_before)
                {
                    // stop had been requested before construction: the callback ran in the constructor
                    VH_CHECK(c.count == 1 && c.cb_start > c.ctor_inv && (c.cb_end < c.ctor_ret || c.action == CBA_DESTROY_SELF),
                        "C14.callback_not_in_constructor",
                        "callback %d registered after stop was requested ran %d times (not inside its constructor)", j,
                        c.count);
                    probe("cb.ran_in_constructor");
                }
                break;
            }
            case OP_CB_DESTROY:
            {
                CbRec& c = C[j];
                if (c.creator == -1 || c.destroyer != -1) break;
                c.destroyer = me;
                int spins = 0;
                while (!c.constructed && spins++ < 200) yield1();
                if (!c.constructed) break;
                destroy_callback(j, me);
                break;
            }
            case OP_REQUEST_STOP:
            {
                pika::stop_source* through = src_of(s);
                if (!through) break;    // (orphan runs: this party has no source of that state left)
                uint64_t inv = sim_seq();
                St[s].requested_inv = true;
                bool r = through->request_stop();
                if (r)
                {
                    St[s].winners++;
                    VH_CHECK(St[s].winners == 1, "C14.two_winners", "%d request_stop calls returned true for state %d",
                        St[s].winners, s);
                    St[s].win_inv = inv;
                    St[s].win_ret = sim_seq();
                    probe("request_stop.won");
                }
                else
                    probe("request_stop.lost");
                break;
            }
            case OP_YIELD:
                for (int i = 0; i < (int) op.v[2]; i++) yield1();
                break;
            default:
                break;
            }
        }
        // local sources die here
        for (size_t i = 0; i < L.src.size(); i++) St[L.src_state[i]].live_sources--;
        L.src.clear();
        for (int ss : L.src_state) St[ss].upper_sources--;
    }

    void run_stop(RunCtx& ctx, bool kf_os_only)
    {
        pk::draw_runtime(ctx, 5);
        Rng r(mix_seed(ctx.seed, 90));
        int nparties = (int) ctx.params.set("c14.parties", r.range(2, 5));
        int64_t os_mask = ctx.params.set("c14.os_mask", kf_os_only ? 0xff : (int64_t) r.below(32));
        g_orphan = ctx.params.set("c14.orphan_states", !kf_os_only && r.chance(1, 3) ? 1 : 0) != 0;
        if (!ctx.program_from_replay)
        {
            Program p;
            int nops = (int) r.range(3, ctx.thorough ? 36 : 24);
            int next_cb = 0;
            for (int i = 0; i < nops; i++)
            {
                Op op;
                op.v[0] = (int64_t) r.below((uint64_t) nparties);
                uint64_t x = r.below(100);
                if (g_orphan && r.chance(1, 4)) x = 9;    // (more sources are destroyed in orphan runs)
                int k = x < 9 ? OP_SRC_COPY :
                    x < 13    ? OP_SRC_DESTROY :
                    x < 15    ? OP_SRC_MOVE :
                    x < 20    ? OP_SRC_MOVE_ASSIGN :
                    x < 24    ? OP_SRC_ASSIGN :
                    x < 27    ? OP_SRC_SWAP :
                    x < 36    ? OP_TOKEN_CHECK :
                    x < 58    ? OP_CB_CONSTRUCT :
                    x < 74    ? OP_CB_DESTROY :
                    x < 90    ? OP_REQUEST_STOP :
                                OP_YIELD;
                op.v[1] = k;
                op.v[2] = (int64_t) r.below(kf_os_only ? 1 : NSTATES);
                if (k == OP_CB_CONSTRUCT)
                    op.v[3] = next_cb < MAXCB ? next_cb++ : (int64_t) r.below(MAXCB);
                else
                    op.v[3] = next_cb ? (int64_t) r.below((uint64_t) next_cb) : 0;
                op.v[4] = r.chance(1, 2) ? (int64_t) r.below(4) : 0;
                if (k == OP_YIELD) op.v[2] = r.range(1, 3);
                p.push_back(op);
            }
            ctx.program = p;
        }
        sim_config sc = draw_sim_config(ctx, 50000, FAULT_STALL);
        begin_sim(ctx, sc);
        focus_select(ctx, c14_focus, 3);
        g_dump_hook = +[]() -> std::string {
            std::string s = pk::dump() + " | callbacks:";
            for (int j = 0; j < MAXCB; j++)
                if (C[j].creator != -1)
                    s += sfmt(" [%d st%d count=%d running=%d constructed=%d destroy_started=%d destroyed=%d]", j, C[j].state,
                        C[j].count, (int) C[j].running, (int) C[j].constructed, (int) C[j].destroy_started,
                        (int) C[j].destroyed);
            return s;
        };
        pk::start(ctx);
        static std::optional<callback_t> cb_storage[MAXCB];
        cbs = cb_storage;
        static pika::stop_source bases[NSTATES];
        base_src = bases;
        for (int s = 0; s < NSTATES; s++) St[s].live_sources = St[s].upper_sources = 1;
        static pika::stop_token toks[NSTATES];
        base_tok = toks;
        if (g_orphan)
        {
            seed_src.resize((size_t) nparties);
            for (int s = 0; s < NSTATES; s++)
            {
                toks[s] = bases[s].get_token();
                for (int i = 0; i < nparties; i++) seed_src[(size_t) i].push_back(bases[s]);
                bases[s] = pika::stop_source(pika::nostopstate);
                St[s].live_sources = St[s].upper_sources = nparties;
            }
            probe("orphan_run");
        }
        static Parties P;
        std::vector<int> kinds;
        for (int i = 0; i < nparties; i++)
        {
            kinds.push_back((os_mask >> i) & 1 ? PARTY_OS : PARTY_TASK);
            g_party_os[i] = kinds.back() == PARTY_OS;
        }
        Program const& prog = ctx.program;
        P.launch(kinds, [&prog, kinds](int i) { run_party(prog, i, kinds[(size_t) i] == PARTY_OS); });
        while (!P.all_finished()) main_pause();
        sim_quiesce(2000000);
        P.join_os();
        // ---- history checks
        for (int j = 0; j < MAXCB; j++)
        {
            CbRec& c = C[j];
            if (c.creator == -1 || !c.constructed) continue;
            StateRec& S = St[c.state];
            VH_CHECK(c.count <= 1, "C14.callback_twice", "callback %d ran %d times", j, c.count);
            if (S.winners == 0)
                VH_CHECK(c.count == 0, "C14.callback_without_stop", "callback %d ran although stop was never requested", j);
            else
            {
                bool registered_throughout = c.ctor_ret < S.win_inv && (!c.destroy_started || c.dtor_inv > S.win_ret);
                bool gone_before = c.destroy_started && c.dtor_ret != 0 && c.dtor_ret < S.win_inv;
                bool stopped_before_ctor = S.win_ret < c.ctor_inv;
                if (registered_throughout || stopped_before_ctor)
                    VH_CHECK(c.count == 1, "C14.callback_lost",
                        "callback %d (registered while stop was requested) ran %d times", j, c.count);
                if (gone_before)
                    VH_CHECK(c.count == 0, "C14.callback_after_destruction",
                        "callback %d ran although it was destroyed before the stop request", j);
            }
        }
        for (int s = 0; s < NSTATES; s++)
        {
            pika::stop_token tok = g_orphan ? toks[s] : bases[s].get_token();
            VH_CHECK(tok.stop_requested() == (St[s].winners == 1), "C14.token_state",
                "state %d: stop_requested()=%d, winners=%d", s, (int) tok.stop_requested(), St[s].winners);
            VH_CHECK(St[s].live_sources == (g_orphan ? 0 : 1) && St[s].upper_sources == St[s].live_sources, "C14.harness",
                "model source count %d..%d", St[s].live_sources, St[s].upper_sources);
        }
        // stop_possible after the last source is gone: true iff stop was requested
        for (int s = 0; s < NSTATES; s++)
        {
            pika::stop_token tok = g_orphan ? toks[s] : bases[s].get_token();
            bases[s] = pika::stop_source(pika::nostopstate);
            VH_CHECK(tok.stop_possible() == (St[s].winners == 1), "C14.stop_possible",
                "state %d: after the last stop_source is gone stop_possible()=%d but stop %s requested", s,
                (int) tok.stop_possible(), St[s].winners ? "was" : "was not");
        }
        for (int j = 0; j < MAXCB; j++) cb_storage[j].reset();
        pk::stop();
    }

    void run_main(RunCtx& c) { run_stop(c, false); }
    void run_os(RunCtx& c) { run_stop(c, true); }

    Registrar r1(Workload{"C14", "stop", 85, run_main, pk::preload});
    Registrar r2(Workload{"C14", "os_threads_only", 15, run_os, pk::preload});

}    // namespace
