// C13 — pika::thread / jthread: join waits for completion and always returns.
#include "parties.hpp"

#include <pika/semaphore.hpp>
#include <pika/stop_token.hpp>
#include <pika/thread.hpp>
#include <pika/threading/jthread.hpp>

#include <memory>

using namespace vh;

namespace {

    std::vector<std::string> const c13_focus = {"thread::join", "add_thread_exit_callback",
        "run_thread_exit_callbacks", "thread_function_nullary", "execution_agent::do_yield",
        "detail::set_thread_state", "set_active_state", "interruption_point"};
    struct FocusInit
    {
        FocusInit()
        {
            for (auto& s : c13_focus) focus_patterns().push_back(s);
        }
    } focus_init;

    enum
    {
        B_RETURN = 0,
        B_YIELD = 1,          // arg yields
        B_BLOCK = 2,          // blocks on a semaphore released by the controller
        B_SPAWN_JOIN = 3,     // spawns a child pika::thread and joins it
        B_INTERRUPTIBLE = 4,  // loops over disabled/enabled sections until interrupted (or released)
        B_STOPPABLE = 5,      // jthread body: loops until stop requested
        B_COUNT = 6
    };
    enum
    {
        C_JOIN = 0,
        C_DETACH = 1,
        C_INTERRUPT_JOIN = 2,
        C_JTHREAD_DTOR = 3,
        C_DOUBLE_JOIN = 4,
        C_SELF_JOIN = 5,    // the body tries to join itself through the handle
        C_MOVE_JOIN = 6,
        C_JTHREAD_STOP_JOIN = 7,
        C_COUNT = 8
    };

    struct Target
    {
        int body = 0, ctl = 0, arg = 0, delay = 0;
        bool started = false;
        bool done = false;          // body returned normally (or by interruption, see interrupted)
        bool interrupted = false;
        bool in_disabled = false;   // body is inside a disable_interruption section
        bool in_between = false;    // body is between interruption points
        int handover = 0;
        bool released = false;
        bool self_join_checked = false;
        uint64_t done_seq = 0;
        pika::counting_semaphore<> sem{0};
        pika::thread th;
        pika::jthread jth;
        bool child_done = false;
    };
    std::vector<std::unique_ptr<Target>> targets;
    int detached_running = 0;

    // pika::this_thread::yield() is declared noexcept although it contains an interruption point (known
    // finding): bodies that may be interrupted yield through the throwing suspend(pending) instead
    bool g_use_noexcept_yield = false;
    void iyield()
    {
        if (g_use_noexcept_yield)
            pika::this_thread::yield();
        else
            pika::this_thread::suspend(pika::threads::detail::thread_schedule_state::pending, "C13 yield");
    }

    void finish(Target& t)
    {
        t.done = true;
        t.done_seq = sim_seq();
    }

    void body_inner(Target& t, int idx, pika::stop_token st);
    void body(Target& t, int idx, pika::stop_token st)
    {
        t.started = true;
        ev(1, idx, t.body);
        try
        {
            body_inner(t, idx, std::move(st));
        }
        catch (pika::thread_interrupted const&)
        {
            VH_CHECK(t.ctl == C_INTERRUPT_JOIN, "C13.interrupt_wrong_target",
                "thread %d was interrupted although nobody interrupted it", idx);
            VH_CHECK(!t.in_disabled, "C13.interrupt_while_disabled",
                "thread %d was interrupted inside a disable_interruption section", idx);
            VH_CHECK(!t.in_between, "C13.interrupt_outside_point",
                "thread %d was interrupted outside an interruption point", idx);
            t.interrupted = true;
            finish(t);
            probe("interrupted");
            throw;
        }
        finish(t);
    }
    void body_inner(Target& t, int idx, pika::stop_token st)
    {
        (void) idx;
        switch (t.body)
        {
        case B_RETURN:
            break;
        case B_YIELD:
            for (int i = 0; i < t.arg; i++) iyield();
            break;
        case B_BLOCK:
            t.sem.acquire();
            break;
        case B_SPAWN_JOIN:
        {
            pika::thread child([&t] {
                for (int i = 0; i < t.arg; i++) iyield();
                t.child_done = true;
            });
            child.join();
            VH_CHECK(t.child_done, "C13.join_early", "child join returned before the child finished");
            VH_CHECK(!child.joinable(), "C13.joinable_after_join", "child joinable after join");
            break;
        }
        case B_INTERRUPTIBLE:
        {
            for (int round = 0; !t.released; round++)
            {
                {
                    pika::this_thread::disable_interruption di;
                    t.in_disabled = true;
                    iyield();    // contains an interruption point: must not fire here
                    pika::this_thread::interruption_point();
                    t.in_disabled = false;
                }
                t.in_between = true;
                // plain computation: no interruption point
                t.in_between = false;
                pika::this_thread::interruption_point();
                iyield();
            }
            break;
        }
        case B_STOPPABLE:
            while (!st.stop_requested()) iyield();
            probe("stop_observed");
            break;
        default:
            break;
        }
    }

    void expect_error(int want, char const* cls, char const* what, auto&& f)
    {
        bool threw = false;
        try
        {
            f();
        }
        catch (pika::exception const& e)
        {
            threw = true;
            VH_CHECK((int) e.get_error() == want, cls, "%s reported error %d, expected %d", what,
                (int) e.get_error(), want);
        }
        VH_CHECK(threw, cls, "%s did not report an error", what);
    }

    void after_join(Target& t, int idx, bool joinable_now)
    {
        VH_CHECK(t.done, "C13.join_early", "join on thread %d returned before its function returned", idx);
        VH_CHECK(!joinable_now, "C13.joinable_after_join", "thread %d joinable after join", idx);
    }

    void controller(int idx)
    {
        Target& t = *targets[(size_t) idx];
        bool const is_j = t.ctl == C_JTHREAD_DTOR || t.ctl == C_JTHREAD_STOP_JOIN || t.body == B_STOPPABLE;
        if (is_j)
        {
            pika::jthread j0([&t, idx](pika::stop_token st) { body(t, idx, std::move(st)); });
            // the handle may change hands at once (possibly before the new thread has run a single instruction): the
            // thread's stop token stays tied to the stop source that travels with the handle
            pika::jthread j1;
            if (t.handover == 1)
            {
                pika::jthread moved(std::move(j0));
                j1 = std::move(moved);
            }
            else if (t.handover == 2)
                j1 = std::move(j0);
            else if (t.handover == 3)
                j1.swap(j0);
            if (t.handover)
            {
                VH_CHECK(!j0.joinable() && j1.joinable(), "C13.moved_from_joinable", "jthread %d: joinable() wrong after the hand-over", idx);
                probe("jthread.handed_over");
            }
            pika::jthread& j = t.handover ? j1 : j0;
            for (int i = 0; i < t.delay; i++) pika::this_thread::yield();
            if (t.body == B_BLOCK) t.sem.release();
            if (t.body == B_INTERRUPTIBLE) t.released = true;
            if (t.ctl == C_JTHREAD_STOP_JOIN)
            {
                bool first = j.request_stop();
                VH_CHECK(first, "C13.request_stop", "first request_stop returned false");
                j.join();
                after_join(t, idx, j.joinable());
            }
            // else: destructor requests stop and joins
            probe("jthread");
        }
        else
        {
            t.th = pika::thread([&t, idx] {
                if (t.ctl == C_SELF_JOIN)
                {
                    // wait until the handle has been stored, then try to join ourselves
                    while (!t.released) poll_pause(false);
                    expect_error((int) pika::error::thread_resource_error, "C13.self_join", "joining oneself",
                        [&] { t.th.join(); });
                    t.self_join_checked = true;
                    probe("self_join");
                }
                body(t, idx, pika::stop_token{});
            });
            if (t.ctl == C_SELF_JOIN) t.released = true;
            for (int i = 0; i < t.delay; i++) pika::this_thread::yield();
            bool was_done = t.done;
            switch (t.ctl)
            {
            case C_DETACH:
                if (t.body == B_BLOCK) t.sem.release();
                if (t.body == B_INTERRUPTIBLE) t.released = true;
                t.th.detach();
                VH_CHECK(!t.th.joinable(), "C13.joinable_after_detach", "thread %d joinable after detach", idx);
                probe("detach");
                return;
            case C_INTERRUPT_JOIN:
                // an interrupt aimed at a thread inside a disable_interruption section is refused
                // with thread_not_interruptable: retry
                for (;;)
                {
                    try
                    {
                        t.th.interrupt();
                        break;
                    }
                    catch (pika::exception const& e)
                    {
                        VH_CHECK(e.get_error() == pika::error::thread_not_interruptable, "C13.interrupt_error",
                            "interrupt() reported error %d", (int) e.get_error());
                        VH_CHECK(t.body == B_INTERRUPTIBLE, "C13.interrupt_error",
                            "interrupt() refused although thread %d never disables interruption", idx);
                        probe("interrupt.refused_while_disabled");
                        pika::this_thread::yield();
                    }
                }
                // a blocked target: half of the time nobody ever releases the semaphore, the interruption itself has to
                // wake the thread (it is delivered at the interruption point inside the wait)
                if (t.body == B_BLOCK && !(t.arg & 1)) t.sem.release();
                t.th.join();
                after_join(t, idx, t.th.joinable());
                if (t.body == B_BLOCK && (t.arg & 1))
                {
                    VH_CHECK(t.interrupted, "C13.interrupt_lost", "blocked thread %d finished without being interrupted", idx);
                    probe("interrupt.woke_blocked_thread");
                }
                if (t.body == B_INTERRUPTIBLE)
                    VH_CHECK(t.interrupted, "C13.interrupt_lost", "interruptible thread %d finished without being interrupted", idx);
                break;
            case C_DOUBLE_JOIN:
                if (t.body == B_BLOCK) t.sem.release();
                if (t.body == B_INTERRUPTIBLE) t.released = true;
                t.th.join();
                after_join(t, idx, t.th.joinable());
                expect_error((int) pika::error::invalid_status, "C13.double_join", "joining twice", [&] { t.th.join(); });
                probe("double_join");
                break;
            case C_MOVE_JOIN:
            {
                if (t.body == B_BLOCK) t.sem.release();
                if (t.body == B_INTERRUPTIBLE) t.released = true;
                pika::thread moved(std::move(t.th));
                VH_CHECK(!t.th.joinable(), "C13.moved_from_joinable", "moved-from handle still joinable");
                moved.join();
                after_join(t, idx, moved.joinable());
                break;
            }
            default:    // C_JOIN, C_SELF_JOIN
                if (t.body == B_BLOCK) t.sem.release();
                if (t.body == B_INTERRUPTIBLE) t.released = true;
                t.th.join();
                after_join(t, idx, t.th.joinable());
                break;
            }
            probe(was_done ? "join.target_already_done" : "join.target_running");
        }
        if (is_j)
        {
            // the jthread destructor has returned
            VH_CHECK(t.done, "C13.jthread_dtor_early", "~jthread returned before the thread function returned (thread %d)", idx);
        }
    }

    void run_threads(RunCtx& ctx, unsigned policy_mask, bool kf)
    {
        pk::draw_runtime(ctx, ctx.thorough ? 8 : 5, policy_mask);
        Rng r(mix_seed(ctx.seed, 80));
        if (kf && ctx.params.get("rt.workers") < 2) ctx.params.set("rt.workers", 2);
        if (!ctx.program_from_replay)
        {
            Program prog;
            int n = (int) r.range(1, 7);
            for (int i = 0; i < n; i++)
            {
                Op op;
                op.v[0] = (int64_t) r.below(B_COUNT);
                op.v[1] = (int64_t) r.below(C_COUNT);
                op.v[2] = r.range(0, 4);
                op.v[3] = r.range(0, 5);
                op.v[4] = r.chance(1, 3) ? r.range(1, 3) : 0;    // jthread: the handle is moved / swapped right after construction
                prog.push_back(op);
            }
            ctx.program = prog;
        }
        sim_config sc = draw_sim_config(ctx, 60000, FAULT_STALL | FAULT_TRYFAIL);
        begin_sim(ctx, sc);
        focus_select(ctx, c13_focus, 3);
        g_dump_hook = +[]() -> std::string {
            std::string s = pk::dump() + " | threads:";
            for (size_t i = 0; i < targets.size(); i++)
                s += sfmt(" [%zu body %d ctl %d started=%d done=%d]", i, targets[i]->body, targets[i]->ctl,
                    (int) targets[i]->started, (int) targets[i]->done);
            return s;
        };
        pk::start(ctx);
        int n = (int) ctx.program.size();
        for (int i = 0; i < n; i++)
        {
            auto t = std::make_unique<Target>();
            Op const& op = ctx.program[(size_t) i];
            t->body = (int) (((op.v[0] % B_COUNT) + B_COUNT) % B_COUNT);
            t->ctl = (int) (((op.v[1] % C_COUNT) + C_COUNT) % C_COUNT);
            t->arg = (int) op.v[2];
            t->delay = (int) op.v[3];
            t->handover = (int) (op.v[4] & 3);
            // stoppable bodies need a jthread; interruption needs an interruptible or finite body
            if (t->body == B_STOPPABLE && t->ctl != C_JTHREAD_STOP_JOIN) t->ctl = C_JTHREAD_DTOR;
            if (t->ctl == C_SELF_JOIN && t->body == B_STOPPABLE) t->body = B_YIELD;
            // interrupting a thread that is joining its child would destroy a joinable handle
            if (t->ctl == C_INTERRUPT_JOIN && t->body == B_SPAWN_JOIN) t->ctl = C_JOIN;
            if ((t->ctl == C_JTHREAD_DTOR || t->ctl == C_JTHREAD_STOP_JOIN) && t->body == B_INTERRUPTIBLE)
                t->body = B_STOPPABLE;
            targets.push_back(std::move(t));
        }
        static Parties P;
        std::vector<int> kinds((size_t) n, PARTY_TASK);
        P.launch(kinds, [](int i) { controller(i); });
        while (!P.all_finished()) main_pause();
        sim_quiesce(2000000);
        pika::wait();    // detached threads
        for (int i = 0; i < n; i++)
        {
            Target& t = *targets[(size_t) i];
            VH_CHECK(t.started && t.done, "C13.thread_lost", "thread %d started=%d done=%d after wait()", i,
                (int) t.started, (int) t.done);
            if (t.ctl == C_SELF_JOIN) VH_CHECK(t.self_join_checked, "C13.self_join", "self join check did not run");
        }
        focus_report();
        pk::stop();
    }

    void run_main(RunCtx& ctx) { run_threads(ctx, 0x7f, false); }
    // known finding: this_thread::yield() is noexcept but throws thread_interrupted
    void run_kf_yield(RunCtx& ctx)
    {
        g_use_noexcept_yield = true;
        if (!ctx.program_from_replay)
        {
            Op op;
            op.v[0] = B_INTERRUPTIBLE;
            op.v[1] = C_INTERRUPT_JOIN;
            op.v[2] = 1;
            op.v[3] = 2;
            ctx.program = Program{op};
            ctx.program_from_replay = true;
        }
        run_threads(ctx, 0x7f, false);
    }
    // known finding: under the shared-priority scheduler a pika::thread is not joinable
    void run_kf(RunCtx& ctx) { run_threads(ctx, 0x80, true); }

    Registrar r1(Workload{"C13", "threads", 100, run_main, pk::preload});
    Registrar r2(Workload{"C13", "kf_shared_priority", 0, run_kf, pk::preload});
    Registrar r3(Workload{"C13", "kf_yield_noexcept", 0, run_kf_yield, pk::preload});

}    // namespace
