// C11 — bulk calls f once per index, then completes once.
#include "opholder.hpp"
#include "parties.hpp"

#include <memory>
#include <stdexcept>

using namespace vh;
namespace ex = pika::execution::experimental;
namespace tt = pika::this_thread::experimental;

namespace {

    std::vector<std::string> const c11_focus = {"thread_pool_bulk", "contiguous_index_queue", "do_work_task", "do_work_chunk",
        "set_value_end_loop", "bulk", "finish"};
    struct FocusInit
    {
        FocusInit()
        {
            for (auto& s : c11_focus) focus_patterns().push_back(s);
        }
    } focus_init;

    struct TestError : std::exception
    {
        int id;
        explicit TestError(int i)
          : id(i)
        {
        }
    };

    struct St
    {
        int64_t n = 0;
        std::vector<int> calls;      // per index
        int outside = 0;             // calls with an index outside [0, n)
        int active = 0;              // f invocations in flight
        int total = 0;
        std::vector<int64_t> throw_at;
        int64_t tok1 = 0, tok2 = 0;
        int nvalue = 0, nerror = 0, nstopped = 0;
        int err_id = -1;
        bool bad_values = false;
        int64_t out1 = 0;
        int yields_at = -1;
    };
    St S;

    struct MoveOnly
    {
        int64_t v;
        explicit MoveOnly(int64_t x)
          : v(x)
        {
        }
        // an owning type: the moved-from object is visibly empty (a value forwarded after it was moved away
        // arrives as -777, like a null unique_ptr)
        MoveOnly(MoveOnly&& o) noexcept
          : v(o.v)
        {
            o.v = -777;
        }
        MoveOnly& operator=(MoveOnly&& o) noexcept
        {
            v = o.v;
            o.v = -777;
            return *this;
        }
        MoveOnly(MoveOnly const&) = delete;
    };

    template <typename I>
    void f_body(I i, int64_t a, int64_t b)
    {
        int64_t idx = (int64_t) i;
        S.active++;
        S.total++;
        if (idx < 0 || idx >= S.n)
            S.outside++;
        else
        {
            S.calls[(size_t) idx]++;
            VH_CHECK(S.calls[(size_t) idx] == 1, "C11.index_twice", "f called %d times for index %lld", S.calls[(size_t) idx],
                (long long) idx);
        }
        if (a != S.tok1 || b != S.tok2) S.bad_values = true;
        VH_CHECK(S.nvalue + S.nerror + S.nstopped == 0 || S.nerror == 1, "C11.call_after_completion",
            "f(%lld) runs after the receiver was signalled with a value", (long long) idx);
        if (idx == S.yields_at) pika::this_thread::yield();
        for (int64_t t : S.throw_at)
            if (t == idx)
            {
                S.active--;
                throw TestError((int) idx);
            }
        S.active--;
    }

    struct Rcv
    {
        PIKA_STDEXEC_RECEIVER_CONCEPT
        template <typename... Ts>
        void set_value(Ts&&... ts) && noexcept
        {
            S.nvalue++;
            VH_CHECK(S.active == 0, "C11.completed_early", "receiver got the value while %d calls of f are still running", S.active);
            if constexpr (sizeof...(Ts) == 2)
            {
                auto tup = std::forward_as_tuple(ts...);
                S.out1 = (int64_t) std::get<0>(tup) + std::get<1>(tup).v;
            }
        }
        void set_error(std::exception_ptr ep) && noexcept
        {
            S.nerror++;
            try
            {
                std::rethrow_exception(ep);
            }
            catch (TestError const& e)
            {
                S.err_id = e.id;
            }
            catch (...)
            {
                S.err_id = -2;
            }
        }
        void set_stopped() && noexcept { S.nstopped++; }
        constexpr ex::empty_env get_env() const& noexcept { return {}; }
    };

    pika::threads::detail::thread_pool_base* g_pool = nullptr;    // bulk runs on this pool (nullptr: the default pool)

    template <typename I>
    void run_shape(RunCtx& ctx, int pred_kind, int hint, int prio)
    {
        using tp = pika::execution::thread_priority;
        auto sched = ex::with_priority(g_pool ? ex::thread_pool_scheduler{g_pool} : ex::thread_pool_scheduler{},
            prio == 1 ? tp::high : tp::normal);
        auto s2 = hint >= 0 ? ex::with_hint(sched, pika::execution::thread_schedule_hint((std::int16_t) hint)) : sched;
        I n = (I) S.n;
        auto f = [](I i, int64_t& a, MoveOnly& b) { f_body(i, a, b.v); };
        std::shared_ptr<void> op;
        // predecessor: values (an int64 and a move-only token) sent on the pool scheduler
        if (pred_kind == 0)
        {
            auto o = make_op(ex::transfer_just(s2, S.tok1, MoveOnly(S.tok2)) | ex::bulk(n, f), Rcv{});
            op = o;
            o->start();
        }
        else if (pred_kind == 1)
        {
            int64_t t1 = S.tok1, t2 = S.tok2;
            auto o = make_op(ex::schedule(s2) | ex::then([] {}) | ex::let_value([t1, t2] { return ex::just(t1, MoveOnly(t2)); }) |
                    ex::continues_on(s2) | ex::bulk(n, f),
                Rcv{});
            op = o;
            o->start();
        }
        else
        {
            // predecessor completes outside the pool (on the starting thread): generic bulk path
            auto o = make_op(ex::just(S.tok1, MoveOnly(S.tok2)) | ex::continues_on(s2) | ex::bulk(n, f), Rcv{});
            op = o;
            o->start();
        }
        while (S.nvalue + S.nerror + S.nstopped == 0) main_pause(3000000);
        sim_quiesce(3000000);
        pika::wait();
        op.reset();
    }

    void run_bulk(RunCtx& ctx)
    {
        Rng r(mix_seed(ctx.seed, 1100));
        pk::draw_runtime(ctx, 8);
        // one run in three: bulk runs on a second pool created through the resource partitioner (its workers' global
        // thread numbers differ from their pool-local numbers)
        int const extra = (int) ctx.params.set("c11.second_pool_threads", r.chance(1, 3) ? r.range(1, 4) : 0);
        int w = extra ? extra : pk::workers(ctx);
        if (!ctx.program_from_replay)
        {
            // op0 = [n, shape type, predecessor kind, hint, prio, yield index]; further ops = throwing indices
            Op o;
            std::vector<int64_t> ns = {0, 1, 2, w - 1, w, w + 1, 4 * w - 1, 4 * w + 1, 8 * w - 1, 8 * w + 1, 16 * w, 63, 64, 65, 127,
                129, 255, 257};
            int64_t n = r.chance(3, 4) ? r.pick(ns) : (int64_t) r.logu(1, ctx.thorough ? 5000 : 1500);
            if (n < 0) n = 0;
            o.v[0] = n;
            o.v[1] = (int64_t) r.below(5);
            o.v[2] = (int64_t) r.below(3);
            o.v[3] = r.chance(1, 4) ? (int64_t) r.below((uint64_t) w) : -1;
            o.v[4] = r.chance(1, 4) ? 1 : 0;
            o.v[5] = n > 0 && r.chance(1, 2) ? (int64_t) r.below((uint64_t) n) : -1;
            Program p{o};
            int nthrow = r.chance(1, 3) ? (int) r.range(1, 3) : 0;
            for (int i = 0; i < nthrow && n > 0; i++)
            {
                Op t;
                t.v[0] = (int64_t) r.below((uint64_t) n);
                p.push_back(t);
            }
            ctx.program = p;
        }
        Program const& p = ctx.program;
        Op hdr = p.empty() ? Op{} : p[0];
        S.n = hdr.v[0] < 0 ? 0 : (hdr.v[0] > 20000 ? 20000 : hdr.v[0]);
        int ty = (int) (((hdr.v[1] % 5) + 5) % 5);
        S.calls.assign((size_t) S.n + 1, 0);
        for (size_t i = 1; i < p.size(); i++)
            if (p[i].v[0] >= 0 && p[i].v[0] < S.n) S.throw_at.push_back(p[i].v[0]);
        S.tok1 = 1000 + (int64_t) (ctx.seed % 1000);
        S.tok2 = 5000 + (int64_t) (ctx.seed % 777);
        S.yields_at = (int) hdr.v[5];
        int hint = hdr.v[3] >= 0 ? (int) (hdr.v[3] % w) : -1;
        sim_config sc = draw_sim_config(ctx, 60000, FAULT_STALL | FAULT_TRYFAIL);
        begin_sim(ctx, sc);
        focus_select(ctx, c11_focus, 3);
        g_dump_hook = +[]() -> std::string {
            int done = 0;
            for (int c : S.calls) done += c;
            return pk::dump() + sfmt(" | bulk: n=%lld calls=%d active=%d signals v%d e%d s%d", (long long) S.n, done, S.active, S.nvalue,
                S.nerror, S.nstopped);
        };
        if (extra)
        {
            int pol = (int) ctx.params.set("c11.second_pool_policy", (int64_t) r.below(8));
            pk::start_with_pools(ctx, {pk::PoolSpec{"bulk", pol, extra, -1}});
            g_pool = &pika::resource::get_thread_pool("bulk");
            VH_CHECK((int) g_pool->get_os_thread_count() == extra, "C11.harness", "second pool has %d threads, wanted %d",
                (int) g_pool->get_os_thread_count(), extra);
            probe("bulk.on_second_pool");
        }
        else
            pk::start(ctx);
        int pred = (int) (((hdr.v[2] % 3) + 3) % 3);
        int prio = (int) (hdr.v[4] & 1);
        switch (ty)
        {
        case 0: run_shape<int>(ctx, pred, hint, prio); break;
        case 1: run_shape<unsigned>(ctx, pred, hint, prio); break;
        case 2: run_shape<long>(ctx, pred, hint, prio); break;
        case 3: run_shape<std::size_t>(ctx, pred, hint, prio); break;
        default: run_shape<long long>(ctx, pred, hint, prio); break;    // (short does not compile on the scheduler path)
        }
        // ---- oracle
        VH_CHECK(S.nvalue + S.nerror + S.nstopped == 1, "C11.signal_count", "receiver signalled %d times",
            S.nvalue + S.nerror + S.nstopped);
        VH_CHECK(S.outside == 0, "C11.index_outside", "%d calls of f with an index outside [0, %lld)", S.outside, (long long) S.n);
        VH_CHECK(!S.bad_values, "C11.values", "a call of f did not see the predecessor's values");
        if (S.throw_at.empty())
        {
            VH_CHECK(S.nvalue == 1, "C11.channel", "no call threw but the receiver got error %d / stopped %d", S.nerror, S.nstopped);
            for (int64_t i = 0; i < S.n; i++)
                VH_CHECK(S.calls[(size_t) i] == 1, "C11.index_missed", "f called %d times for index %lld of %lld", S.calls[(size_t) i],
                    (long long) i, (long long) S.n);
            VH_CHECK(S.out1 == S.tok1 + S.tok2, "C11.values", "forwarded values changed");
            probe(S.n == 0 ? "bulk.n0" : "bulk.value");
        }
        else
        {
            VH_CHECK(S.nerror == 1 && S.nvalue == 0, "C11.channel", "a call threw but the receiver got value %d error %d", S.nvalue,
                S.nerror);
            bool one_of = false;
            for (int64_t t : S.throw_at)
                if (t == S.err_id) one_of = true;
            VH_CHECK(one_of, "C11.error_identity", "the error (%d) is not one of the thrown exceptions", S.err_id);
            for (int64_t i = 0; i < S.n; i++)
                VH_CHECK(S.calls[(size_t) i] <= 1, "C11.index_twice", "f called %d times for index %lld", S.calls[(size_t) i], (long long) i);
            probe("bulk.error");
        }
        probe(sfmt("bulk.type%d", ty).c_str());
        probe(sfmt("bulk.pred%d", pred).c_str());
        focus_report();
        pk::stop();
    }

    Registrar r1(Workload{"C11", "bulk", 100, run_bulk, pk::preload});

}    // namespace
