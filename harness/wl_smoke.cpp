// Smoke workload (not a property): start, N yielding tasks with a mutex, wait, stop.
#include "pk.hpp"

#include <pika/execution.hpp>
#include <pika/mutex.hpp>
#include <pika/thread.hpp>

namespace ex = pika::execution::experimental;
using namespace vh;

static void run_smoke(RunCtx& ctx)
{
    pk::draw_runtime(ctx, 8);
    sim_config sc = draw_sim_config(ctx, 40000, FAULT_STALL);
    begin_sim(ctx, sc);
    g_dump_hook = pk::dump;
    pk::start(ctx);
    int const n = 50;
    static int done[64];
    static pika::mutex mtx;
    static int in_cs = 0;
    ex::thread_pool_scheduler sched;
    for (int i = 0; i < n; i++)
    {
        ex::start_detached(ex::schedule(sched) | ex::then([i] {
            ev(1, i);
            pika::this_thread::yield();
            {
                std::unique_lock<pika::mutex> l(mtx);
                VH_CHECK(in_cs == 0, "S00.overlap", "two tasks in critical section");
                in_cs = 1;
                pika::this_thread::yield();
                in_cs = 0;
            }
            done[i]++;
            ev(2, i);
        }));
    }
    sim_quiesce(2000000);
    pika::wait();
    for (int i = 0; i < n; i++) VH_CHECK(done[i] == 1, "S00.once", "task %d ran %d times", i, done[i]);
    pk::stop();
}

static Registrar reg(Workload{"S00", "main", 1, run_smoke, pk::preload});
