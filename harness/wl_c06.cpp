// C06 — mutexes give mutual exclusion and always hand the lock on.
#include "parties.hpp"

#include <pika/concurrency/spinlock.hpp>
#include <pika/mutex.hpp>
#include <pika/thread_support/spinlock.hpp>

#include <chrono>

using namespace vh;

namespace {

    std::vector<std::string> const c06_focus = {"mutex::lock", "mutex::unlock", "mutex::try_lock", "timed_mutex", "condition_variable::wait", "condition_variable::notify_one", "recursive_mutex", "spinlock", "execution_agent::do_yield", "set_thread_state"};
    struct FocusInit
    {
        FocusInit()
        {
            for (auto& s : c06_focus) focus_patterns().push_back(s);
        }
    } focus_init;

    using rmutex = pika::detail::recursive_mutex_impl<>;


    enum
    {
        OP_CS = 1,           // a = yields inside, b = sleep us inside
        OP_TRY_CS = 2,       // a = yields inside
        OP_TIMED_CS = 3,     // a = timeout us, b = yields inside  (timed_mutex)
        OP_RECURSIVE = 4,    // a = depth, b = yields            (recursive_mutex)
        OP_RELOCK = 5,       // lock; lock(ec) must report deadlock; unlock
        OP_FOREIGN_UNLOCK = 6,    // unlock(ec) without owning must report lock_error
        OP_YIELD = 7,        // a = times
        OP_TIMED_UNTIL_CS = 8,
    };
    enum
    {
        K_MUTEX = 0,
        K_TIMED = 1,
        K_RECURSIVE = 2,
        K_SPIN_CONC = 3,
        K_SPIN_TS = 4
    };

    struct Shared
    {
        int occupancy = 0;
        int owner = -1;
        int depth = 0;
        uint64_t x = 1, nx = ~1ull;    // unprotected pair, must stay consistent across sections
        uint64_t sections = 0;
        int blocked_lockers = 0;
    };
    Shared G;

    void yield_here(int kind, int times)
    {
        for (int i = 0; i < times; i++)
        {
            if (kind == PARTY_OS)
                std::this_thread::yield();
            else
                pika::this_thread::yield();
        }
    }

    void enter(int me, bool recursive)
    {
        if (recursive && G.owner == me)
        {
            G.depth++;
            return;
        }
        G.occupancy++;
        VH_CHECK(G.occupancy == 1, "C06.mutual_exclusion",
            "party %d entered the critical section while party %d is inside (occupancy %d)", me,
            G.owner, G.occupancy);
        G.owner = me;
        G.depth = 1;
        VH_CHECK(G.nx == ~G.x, "C06.section_visibility",
            "data written in the previous critical section is torn: x=%llu ~x=%llu",
            (unsigned long long) G.x, (unsigned long long) ~G.nx);
        G.x = G.x * 6364136223846793005ull + (uint64_t) me + 1;    // first half of the update
    }
    void inside(int me)
    {
        VH_CHECK(G.occupancy == 1 && G.owner == me, "C06.mutual_exclusion",
            "party %d inside the section sees owner %d occupancy %d", me, G.owner, G.occupancy);
    }
    void leave(int me)
    {
        inside(me);
        if (--G.depth > 0) return;
        G.nx = ~G.x;    // second half of the update
        G.sections++;
        G.owner = -1;
        G.occupancy--;
    }

    // deadline (virtual steady clock) of the most recently started timed lock attempt: an owner may aim its
    // unlock at it, so that the hand-over races with the timed waiter giving up
    std::chrono::steady_clock::time_point g_timed_deadline{};

    template <typename M>
    void plain_section(M& m, int me, int kind, int yields, int sleep_us, bool allow_yield, int aim = 0)
    {
        G.blocked_lockers++;
        m.lock();
        G.blocked_lockers--;
        enter(me, false);
        if (allow_yield)
        {
            yield_here(kind, yields);
            if (sleep_us > 0 && kind == PARTY_TASK)
                task_sleep_us(sleep_us);
            if ((aim & 1) && g_timed_deadline > std::chrono::steady_clock::now())
            {
                // hold the lock until a drawn distance (-300 .. +1800 ns) from that deadline: coarse approach with
                // yields (at most 3000), the last 5 us by reading the clock only (every read is a schedule point
                // and advances virtual time by one quantum)
                auto target = g_timed_deadline + std::chrono::nanoseconds((((aim >> 1) & 7) - 1) * 300);
                for (int i = 0; i < 3000 && std::chrono::steady_clock::now() + std::chrono::microseconds(5) < target; i++)
                {
                    if (kind == PARTY_TASK)
                        pika::this_thread::yield();
                    else
                        std::this_thread::yield();
                }
                for (int i = 0; i < 20000 && std::chrono::steady_clock::now() < target; i++) {}
                probe("unlock_aimed_at_timed_deadline");
            }
        }
        leave(me);
        m.unlock();
    }

    template <typename M>
    void try_section(M& m, int me, int kind, int yields, bool allow_yield)
    {
        if (m.try_lock())
        {
            probe("try_lock.true");
            enter(me, false);
            if (allow_yield) yield_here(kind, yields);
            leave(me);
            m.unlock();
        }
        else
            probe("try_lock.false");
    }

    template <typename M>
    void run_party(M& m, Program const& prog, int me, int kind, int mkind)
    {
        bool const spin = mkind == K_SPIN_CONC || mkind == K_SPIN_TS;
        // spinlock sections are short and never yield; recursive_mutex_impl<> wraps a spinlock whose
        // lock() spins without yielding the task, so holding it across a yield is misuse
        bool const allow_yield = !spin && mkind != K_RECURSIVE;
        if (!allow_yield && mkind == K_RECURSIVE)
        {
            // keep the arguments but drop in-section yields for this kind
        }
        for (auto const& op : prog)
        {
            if (op.v[0] != me) continue;
            int a = (int) op.v[2], b = (int) op.v[3];
            switch (op.v[1])
            {
            case OP_CS:
                if constexpr (std::is_same_v<M, rmutex>)
                {
                    G.blocked_lockers++;
                    m.lock();
                    G.blocked_lockers--;
                    enter(me, true);
                    if (allow_yield) yield_here(kind, a);
                    leave(me);
                    m.unlock();
                }
                else
                    plain_section(m, me, kind, a, b, allow_yield, std::is_same_v<M, pika::timed_mutex> ? (int) op.v[4] : 0);
                break;
            case OP_TRY_CS:
                if constexpr (std::is_same_v<M, rmutex>)
                {
                    if (m.try_lock())
                    {
                        enter(me, true);
                        if (allow_yield) yield_here(kind, a);
                        leave(me);
                        m.unlock();
                    }
                }
                else
                    try_section(m, me, kind, a, allow_yield);
                break;
            case OP_TIMED_CS:
            case OP_TIMED_UNTIL_CS:
                if constexpr (std::is_same_v<M, pika::timed_mutex>)
                {
                    g_timed_deadline = std::chrono::steady_clock::now() + std::chrono::microseconds(a);
                    bool ok = op.v[1] == OP_TIMED_CS ?
                        m.try_lock_for(std::chrono::microseconds(a)) :
                        m.try_lock_until(
                            std::chrono::steady_clock::now() + std::chrono::microseconds(a));
                    probe(ok ? "timed_lock.true" : "timed_lock.false");
                    if (ok)
                    {
                        enter(me, false);
                        yield_here(kind, b);
                        leave(me);
                        m.unlock();
                    }
                }
                break;
            case OP_RECURSIVE:
                if constexpr (std::is_same_v<M, rmutex>)
                {
                    int depth = a < 1 ? 1 : (a > 3 ? 3 : a);
                    for (int d = 0; d < depth; d++)
                    {
                        if (d == 0) G.blocked_lockers++;
                        if (d % 2 == 0)
                            m.lock();
                        else
                            VH_CHECK(m.try_lock(), "C06.recursive.try_lock",
                                "owner's nested try_lock at depth %d failed", d);
                        if (d == 0) G.blocked_lockers--;
                        enter(me, true);
                        VH_CHECK(G.depth == d + 1, "C06.recursive.depth", "depth %d, expected %d",
                            G.depth, d + 1);
                        if (allow_yield) yield_here(kind, b);
                    }
                    for (int d = depth; d > 0; d--)
                    {
                        leave(me);
                        m.unlock();
                        if (d > 1) inside(me);    // still ours until the last unlock
                    }
                    probe("recursive.nested");
                }
                break;
            case OP_RELOCK:
                if constexpr (std::is_same_v<M, pika::mutex> || std::is_same_v<M, pika::timed_mutex>)
                {
                    G.blocked_lockers++;
                    m.lock();
                    G.blocked_lockers--;
                    enter(me, false);
                    pika::error_code ec(pika::throwmode::lightweight);
                    m.lock(ec);
                    VH_CHECK(ec.value() == (int) pika::error::deadlock, "C06.misuse.relock",
                        "re-locking an owned mutex reported error %d, expected deadlock(%d)",
                        ec.value(), (int) pika::error::deadlock);
                    inside(me);
                    yield_here(kind, a);
                    leave(me);
                    m.unlock();
                    probe("misuse.relock");
                }
                break;
            case OP_FOREIGN_UNLOCK:
                if constexpr (std::is_same_v<M, pika::mutex> || std::is_same_v<M, pika::timed_mutex>)
                {
                    pika::error_code ec(pika::throwmode::lightweight);
                    m.unlock(ec);
                    VH_CHECK(ec.value() == (int) pika::error::lock_error, "C06.misuse.foreign_unlock",
                        "unlocking a mutex the caller does not own reported error %d, expected "
                        "lock_error(%d)",
                        ec.value(), (int) pika::error::lock_error);
                    probe("misuse.foreign_unlock");
                }
                break;
            case OP_YIELD:
                yield_here(kind, a);
                break;
            default:
                break;
            }
        }
    }

    Program gen(RunCtx& ctx, int nparties, int mkind)
    {
        Rng r(mix_seed(ctx.seed, 41));
        Program p;
        int nops = (int) r.range(3, ctx.thorough ? 36 : 22);
        for (int i = 0; i < nops; i++)
        {
            Op op;
            op.v[0] = (int64_t) r.below((uint64_t) nparties);
            uint64_t x = r.below(100);
            int k;
            if (mkind == K_TIMED)
                k = x < 35 ? OP_CS : x < 50 ? OP_TRY_CS : x < 68 ? OP_TIMED_CS : x < 80 ? OP_TIMED_UNTIL_CS : x < 86 ? OP_RELOCK : x < 92 ? OP_FOREIGN_UNLOCK : OP_YIELD;
            else if (mkind == K_RECURSIVE)
                k = x < 35 ? OP_CS : x < 50 ? OP_TRY_CS : x < 90 ? OP_RECURSIVE : OP_YIELD;
            else if (mkind == K_MUTEX)
                k = x < 55 ? OP_CS : x < 72 ? OP_TRY_CS : x < 80 ? OP_RELOCK : x < 88 ? OP_FOREIGN_UNLOCK : OP_YIELD;
            else
                k = x < 60 ? OP_CS : x < 88 ? OP_TRY_CS : OP_YIELD;
            op.v[1] = k;
            if (k == OP_TIMED_CS || k == OP_TIMED_UNTIL_CS)
            {
                op.v[2] = (int64_t) r.logu(1, 400);
                op.v[3] = r.range(0, 3);
            }
            else if (k == OP_RECURSIVE)
            {
                op.v[2] = r.range(1, 3);
                op.v[3] = r.range(0, 2);
            }
            else
            {
                op.v[2] = r.range(0, 3);
                op.v[3] = r.chance(1, 6) ? (int64_t) r.logu(1, 100) : 0;
                // timed_mutex: half of the plain sections aim their unlock at a timed waiter's deadline
                if (mkind == K_TIMED && k == OP_CS && r.chance(1, 2)) op.v[4] = 1 | ((int64_t) r.below(8) << 1);
            }
            p.push_back(op);
        }
        return p;
    }

    template <typename M>
    void run_kind(RunCtx& ctx, int mkind)
    {
        pk::draw_runtime(ctx, ctx.thorough ? 8 : 6);
        Rng r(mix_seed(ctx.seed, 40));
        int nparties = (int) ctx.params.set("c06.parties", r.range(2, 8));
        bool const spin = mkind == K_SPIN_CONC || mkind == K_SPIN_TS;
        bool const os_ok = spin || mkind == K_RECURSIVE;
        int64_t os_mask = ctx.params.set("c06.os_mask", os_ok && r.chance(2, 3) ? (int64_t) r.below(256) : 0);
        if (!ctx.program_from_replay) ctx.program = gen(ctx, nparties, mkind);
        sim_config sc = draw_sim_config(ctx, 60000, FAULT_STALL | FAULT_CLOCKJUMP | FAULT_TRYFAIL);
        begin_sim(ctx, sc);
        focus_select(ctx, c06_focus, 3);
        g_dump_hook = +[]() -> std::string {
            return pk::dump() +
                sfmt(" | mutex model: occupancy=%d owner=%d blocked_lockers=%d sections=%llu",
                    G.occupancy, G.owner, G.blocked_lockers, (unsigned long long) G.sections);
        };
        pk::start(ctx);
        static M m;
        static Parties P;
        std::vector<int> kinds;
        for (int i = 0; i < nparties; i++) kinds.push_back((os_mask >> i) & 1 ? PARTY_OS : PARTY_TASK);
        Program const& prog = ctx.program;
        P.launch(kinds,
            [&prog, kinds, mkind](int i) { run_party(m, prog, i, kinds[(size_t) i], mkind); });
        // every lock is followed by its unlock inside the same operation, so once faults stop every
        // blocked locker must get the mutex: bounded liveness decides "no unlock is lost"
        while (!P.all_finished()) main_pause();
        sim_quiesce(2000000);
        P.join_os();
        VH_CHECK(G.occupancy == 0 && G.owner == -1, "C06.mutual_exclusion",
            "at the end occupancy=%d owner=%d", G.occupancy, G.owner);
        // after all the misuse errors the mutex still works
        bool got = false;
        if constexpr (!std::is_same_v<M, pika::concurrency::detail::spinlock> &&
            !std::is_same_v<M, pika::detail::spinlock>)
        {
            pika::this_thread::experimental::sync_wait(
                pika::execution::experimental::schedule(
                    pika::execution::experimental::thread_pool_scheduler{}) |
                pika::execution::experimental::then([&] {
                    got = m.try_lock();
                    if (got) m.unlock();
                }));
        }
        else
        {
            got = m.try_lock();
            if (got) m.unlock();
        }
        VH_CHECK(got, "C06.left_locked", "after all parties finished the mutex cannot be acquired");
        pk::stop();
    }

    void run_mutex(RunCtx& c) { run_kind<pika::mutex>(c, K_MUTEX); }
    void run_timed(RunCtx& c) { run_kind<pika::timed_mutex>(c, K_TIMED); }
    void run_recursive(RunCtx& c) { run_kind<rmutex>(c, K_RECURSIVE); }
    void run_spin_conc(RunCtx& c) { run_kind<pika::concurrency::detail::spinlock>(c, K_SPIN_CONC); }
    void run_spin_ts(RunCtx& c) { run_kind<pika::detail::spinlock>(c, K_SPIN_TS); }

    Registrar r1(Workload{"C06", "mutex", 25, run_mutex, pk::preload});
    Registrar r2(Workload{"C06", "timed_mutex", 40, run_timed, pk::preload});
    Registrar r3(Workload{"C06", "recursive_mutex", 15, run_recursive, pk::preload});
    Registrar r4(Workload{"C06", "spinlock_concurrency", 10, run_spin_conc, pk::preload});
    Registrar r5(Workload{"C06", "spinlock_thread_support", 10, run_spin_ts, pk::preload});

}    // namespace
