#include "common.hpp"

#include <setjmp.h>

#include <cmath>
#include <cstdlib>
#include <cxxabi.h>
#include <elf.h>
#include <exception>
#include <fcntl.h>
#include <link.h>
#include <map>
#include <signal.h>
#include <sys/mman.h>
#include <sys/stat.h>
#include <typeinfo>
#include <unistd.h>

namespace vh {

    std::vector<Event> g_log;
    RunCtx* g_ctx = nullptr;
    std::string (*g_dump_hook)() = nullptr;

    static std::vector<std::pair<std::string, uint64_t>> g_probes;
    static std::vector<std::pair<std::string, std::string>> g_notes;

    double Rng::logu(double lo, double hi) { return lo * std::pow(hi / lo, unit()); }

    bool Params::has(std::string const& k) const
    {
        for (auto& p : kv)
            if (p.first == k) return true;
        return false;
    }
    int64_t Params::get(std::string const& k, int64_t dflt) const
    {
        for (auto& p : kv)
            if (p.first == k) return p.second;
        return dflt;
    }
    int64_t Params::set(std::string const& k, int64_t v)
    {
        for (auto& f : forced)
            if (f.first == k) v = f.second;
        for (auto& p : kv)
            if (p.first == k)
            {
                p.second = v;
                return v;
            }
        kv.emplace_back(k, v);
        return v;
    }

    void probe(char const* name, uint64_t n)
    {
        AtomicSection atomic;
        for (auto& p : g_probes)
            if (p.first == name)
            {
                p.second += n;
                return;
            }
        g_probes.emplace_back(name, n);
    }
    void note(char const* key, std::string const& val) { g_notes.emplace_back(key, val); }

    std::string sfmt(char const* f, ...)
    {
        char buf[2048];
        va_list ap;
        va_start(ap, f);
        vsnprintf(buf, sizeof(buf), f, ap);
        va_end(ap);
        return buf;
    }

    static void jesc(std::string& o, std::string const& s)
    {
        o += '"';
        for (unsigned char c : s)
        {
            if (c == '"' || c == '\\')
            {
                o += '\\';
                o += (char) c;
            }
            else if (c == '\n')
                o += "\\n";
            else if (c < 0x20 || c >= 0x7f)
                o += '?';
            else
                o += (char) c;
        }
        o += '"';
    }

    static char const* const dk_names[SIM_D_NKINDS] = {
        "switch", "spurious", "tryfail", "clockjump", "sigpick", "stall"};

    static void emit_result(char const* outcome, char const* cls, std::string const& msg)
    {
        RunCtx& c = *g_ctx;
        sim_stats st;
        sim_get_stats(&st);
        std::string o;
        o.reserve(4096);
        o += "{\"prop\":";
        jesc(o, c.prop);
        o += ",\"sub\":";
        jesc(o, c.sub);
        o += sfmt(",\"seed\":%llu,\"outcome\":\"%s\",\"class\":", (unsigned long long) c.seed, outcome);
        jesc(o, cls);
        o += ",\"msg\":";
        jesc(o, msg);
        o += sfmt(",\"steps\":%llu,\"switches\":%llu,\"preempt\":%llu,\"forced\":%llu,\"vtime\":%llu,"
                 "\"hash\":\"%016llx\",\"threads\":%llu,\"spin_forced\":%llu,\"time_jumps\":%llu,"
                 "\"focus_preempt\":%llu,\"quiesce_step\":%llu,\"auto_quiesced\":%llu,\"mem_points\":%llu",
            (unsigned long long) st.steps, (unsigned long long) st.switches,
            (unsigned long long) st.preemptions, (unsigned long long) st.forced_switches,
            (unsigned long long) st.vtime_ns, (unsigned long long) st.hash,
            (unsigned long long) st.threads_created, (unsigned long long) st.spin_forced,
            (unsigned long long) st.time_jumps, (unsigned long long) st.focus_preemptions,
            (unsigned long long) st.quiesce_start_step, (unsigned long long) st.auto_quiesced,
            (unsigned long long) st.mem_points);
        o += ",\"faults\":{";
        for (int i = 1; i < SIM_D_NKINDS; i++)
            o += sfmt("%s\"%s\":%llu", i > 1 ? "," : "", dk_names[i],
                (unsigned long long) st.fault_counts[i]);
        o += "},\"probes\":{";
        bool first = true;
        for (auto& p : g_probes)
        {
            if (!first) o += ',';
            first = false;
            jesc(o, p.first);
            o += sfmt(":%llu", (unsigned long long) p.second);
        }
        o += "},\"params\":{";
        first = true;
        for (auto& p : c.params.kv)
        {
            if (!first) o += ',';
            first = false;
            jesc(o, p.first);
            o += sfmt(":%lld", (long long) p.second);
        }
        o += "},\"notes\":{";
        first = true;
        for (auto& p : g_notes)
        {
            if (!first) o += ',';
            first = false;
            jesc(o, p.first);
            o += ':';
            jesc(o, p.second);
        }
        o += "}";
        bool ok = strcmp(outcome, "ok") == 0;
        if (!ok || c.params.get("emit_program", 0) || c.seed % 64 == 0)
        {
            o += ",\"program\":[";
            for (size_t i = 0; i < c.program.size(); i++)
            {
                if (i) o += ',';
                o += '[';
                int last = 7;
                while (last > 0 && c.program[i].v[last] == 0) last--;
                for (int j = 0; j <= last; j++)
                    o += sfmt("%s%lld", j ? "," : "", (long long) c.program[i].v[j]);
                o += ']';
            }
            o += "]";
        }
        if (c.record)
        {
            sim_decision const* d;
            size_t n = sim_get_record(&d);
            o += ",\"record\":[";
            for (size_t i = 0; i < n; i++)
                o += sfmt("%s[%u,%u,%llu,%llu]", i ? "," : "", d[i].tid, d[i].kind,
                    (unsigned long long) d[i].n, (unsigned long long) d[i].arg);
            o += "]";
        }
        o += "}\n";
        size_t off = 0;
        while (off < o.size())
        {
            ssize_t w = write(c.out_fd, o.data() + off, o.size() - off);
            if (w <= 0) break;
            off += (size_t) w;
        }
    }

    static bool g_reporting = false;
    static void gdb_dump();
    static void dump_trace_file();
    extern bool g_gdb_on_fail;

    char const* heapq_first_dirty();
    void heapq_enable(bool on);
    uint64_t heapq_count();

    [[noreturn]] void violation(char const* cls, char const* f, ...)
    {
        heapq_enable(false);
        char buf[4096];
        va_list ap;
        va_start(ap, f);
        vsnprintf(buf, sizeof(buf), f, ap);
        va_end(ap);
        if (g_reporting) _exit(4);
        g_reporting = true;
        if (g_gdb_on_fail) gdb_dump();
        dump_trace_file();
        emit_result("violation", cls, buf);
        _exit(3);
    }

    [[noreturn]] void finish_ok()
    {
        if (g_reporting) _exit(4);
        // memory released through operator delete during the run has been kept aside, filled with a pattern
        if (char const* dirty = heapq_first_dirty())
            violation((g_ctx->prop + (strstr(dirty, "released twice") ? ".heap.double_release" : ".heap.write_after_release")).c_str(),
                "%s", dirty);
        heapq_enable(false);
        probe("heap.blocks_quarantined", heapq_count());
        g_reporting = true;
        emit_result("ok", "", "");
        _exit(0);
    }

    bool g_gdb_on_fail = false;
    char g_trace_path[512] = "";
    static void dump_trace_file()
    {
        if (!g_trace_path[0]) return;
        int tfd = open(g_trace_path, O_WRONLY | O_CREAT | O_TRUNC, 0644);
        if (tfd < 0) return;
        // module bases first (ASLR is off, but keep the file self-contained)
        int mfd = open("/proc/self/maps", O_RDONLY);
        if (mfd >= 0)
        {
            static char buf[1 << 16];
            ssize_t n = read(mfd, buf, sizeof(buf) - 1);
            close(mfd);
            if (n > 0)
            {
                buf[n] = 0;
                char* line = buf;
                while (line && *line)
                {
                    char* nl = strchr(line, '\n');
                    if (nl) *nl = 0;
                    if (strstr(line, "r-xp") && (strstr(line, "libpika.so") || strstr(line, "/runner")))
                    {
                        if (write(tfd, "MAP ", 4) < 0) {}
                        if (write(tfd, line, strlen(line)) < 0) {}
                        if (write(tfd, "\n", 1) < 0) {}
                    }
                    line = nl ? nl + 1 : nullptr;
                }
            }
        }
        sim_dump_trace(tfd, 8000);
        close(tfd);
    }
    static void gdb_dump()
    {
        char cmd[600];
        snprintf(cmd, sizeof(cmd),
            "if [ -f /verif/build/tmp/gdbcmds ]; then gdb -p %d -batch -x /verif/build/tmp/gdbcmds > "
            "/verif/build/tmp/gdb.out 2>&1; exit 0; fi; "
            "gdb -p %d -batch -ex 'thread apply all bt 25' 2>/dev/null | grep -E '^Thread|^#' | cut "
            "-c1-260 > /verif/build/tmp/gdb.%d.txt",
            (int) getpid(), (int) getpid(), (int) getpid());
        if (system(cmd) != 0) {}
    }

    // a fault inside a workload's dump hook (it reads runtime state of a run that already failed)
    // must not cost the classification of the failure that is being reported
    static sigjmp_buf g_dump_jmp;
    static volatile bool g_in_dump = false;

    static void on_sim_fail(char const* cls, char const* msg)
    {
        heapq_enable(false);
        if (g_reporting) _exit(4);
        g_reporting = true;
        if (g_gdb_on_fail) gdb_dump();
        dump_trace_file();
        std::string m = msg;
        char buf[8192];
        size_t n = sim_describe(buf, sizeof(buf));
        m += " | threads: ";
        m.append(buf, n);
        if (g_dump_hook)
        {
            if (sigsetjmp(g_dump_jmp, 1) == 0)
            {
                g_in_dump = true;
                std::string d = g_dump_hook();
                g_in_dump = false;
                m += " | ";
                m += d;
            }
            else
            {
                g_in_dump = false;
                m += " | (state dump failed)";
            }
        }
        emit_result(cls, cls, m);
        _exit(3);
    }

    static void on_signal(int sig, siginfo_t* si, void*)
    {
        heapq_enable(false);
        if (g_in_dump) siglongjmp(g_dump_jmp, 1);
        if (g_reporting) _exit(4);
        g_reporting = true;
        if (g_gdb_on_fail) gdb_dump();
        emit_result("crash", "crash",
            sfmt("signal %d (%s) fault address %p in simulated thread T%d", sig, strsignal(sig),
                si ? si->si_addr : nullptr, sim_tid()));
        _exit(3);
    }

    // every simulated thread gets its own alternate signal stack: a task that overflows its (small)
    // coroutine stack must still be able to report the crash
    static char g_altstacks[64][1 << 15];
    static int g_next_altstack = 1;
    static void thread_altstack()
    {
        if (g_next_altstack >= 64) return;
        stack_t ss;
        ss.ss_sp = g_altstacks[g_next_altstack++];
        ss.ss_size = sizeof(g_altstacks[0]);
        ss.ss_flags = 0;
        sigaltstack(&ss, nullptr);
    }

    void install_crash_handlers()
    {
        stack_t ss;
        ss.ss_sp = g_altstacks[0];
        ss.ss_size = sizeof(g_altstacks[0]);
        ss.ss_flags = 0;
        sigaltstack(&ss, nullptr);
        sim_set_thread_start_hook(thread_altstack);
        struct sigaction sa;
        memset(&sa, 0, sizeof(sa));
        sa.sa_sigaction = on_signal;
        sa.sa_flags = SA_SIGINFO | SA_ONSTACK | SA_NODEFER;
        for (int s : {SIGSEGV, SIGBUS, SIGFPE, SIGILL, SIGABRT}) sigaction(s, &sa, nullptr);
    }

    static void on_terminate()
    {
        heapq_enable(false);
        if (g_reporting) _exit(4);
        g_reporting = true;
        if (g_gdb_on_fail) gdb_dump();
        std::string m = "std::terminate";
        if (auto ep = std::current_exception())
        {
            try
            {
                std::rethrow_exception(ep);
            }
            catch (std::exception const& e)
            {
                m += std::string(": ") + typeid(e).name() + ": " + e.what();
            }
            catch (...)
            {
                m += ": unknown exception";
            }
        }
        emit_result("crash", "crash", m);
        _exit(3);
    }

    // ---------------------------------------------------------------------------------------------
    static uint32_t p32(double p)
    {
        if (p <= 0) return 0;
        if (p >= 1) return 0xffffffffu;
        return (uint32_t) (p * 4294967296.0);
    }

    sim_config draw_sim_config(RunCtx& ctx, uint64_t est_len, unsigned allowed_faults)
    {
        Rng r(mix_seed(ctx.seed, 11));
        Params& P = ctx.params;
        sim_config c;
        memset(&c, 0, sizeof(c));
        c.seed = mix_seed(ctx.seed, 12);
        // strategy
        int s;
        {
            uint64_t x = r.below(100);
            s = x < 30 ? SIM_WALK : x < 50 ? SIM_PCT : x < 72 ? SIM_CONFLICT : x < 90 ? SIM_FOCUS : SIM_RR;
        }
        c.strategy = (int) P.set("sim.strategy", s);
        c.p_switch = (uint32_t) P.set("sim.p_switch", p32(r.logu(0.002, 0.3)));
        c.pct_depth = (int) P.set("sim.pct_depth", r.range(1, 5));
        c.pct_len = (uint64_t) P.set("sim.pct_len", (int64_t) est_len);
        c.p_conflict = (uint32_t) P.set("sim.p_conflict", p32(0.2 + 0.7 * r.unit()));
        c.p_base = (uint32_t) P.set("sim.p_base", p32(r.logu(0.0005, 0.01)));
        c.p_focus = (uint32_t) P.set("sim.p_focus", p32(0.1 + 0.5 * r.unit()));
        c.rr_quantum = (int) P.set("sim.rr_quantum", (int64_t) r.logu(5, 2000));
        c.time_quantum_ns = (uint64_t) P.set("sim.time_quantum_ns", (int64_t) r.logu(20, 5000));
        c.spin_limit = (uint32_t) P.set("sim.spin_limit", (int64_t) r.logu(50, 1000));
        c.max_steps = (uint64_t) P.set("sim.max_steps", 3000000);
        // faults: each allowed kind enabled in ~30% of runs
        bool f_sp = (allowed_faults & FAULT_SPURIOUS) && r.chance(30, 100);
        bool f_tf = (allowed_faults & FAULT_TRYFAIL) && r.chance(30, 100);
        bool f_cj = (allowed_faults & FAULT_CLOCKJUMP) && r.chance(30, 100);
        bool f_st = (allowed_faults & FAULT_STALL) && r.chance(35, 100);
        c.p_spurious = (uint32_t) P.set("sim.p_spurious", f_sp ? p32(r.logu(1e-5, 1e-3)) : 0);
        c.p_tryfail = (uint32_t) P.set("sim.p_tryfail", f_tf ? p32(r.logu(0.01, 0.3)) : 0);
        c.p_clockjump = (uint32_t) P.set("sim.p_clockjump", f_cj ? p32(r.logu(0.001, 0.05)) : 0);
        c.clockjump_max_ns = (uint64_t) P.set("sim.clockjump_max_ns", (int64_t) r.logu(1e3, 1e7));
        c.p_stall = (uint32_t) P.set("sim.p_stall", f_st ? p32(r.logu(0.001, 0.05)) : 0);
        c.stall_max_steps = (uint64_t) P.set("sim.stall_max_steps", (int64_t) r.logu(100, 20000));
        if (ctx.have_script) c.strategy = SIM_SCRIPT;
        c.record = ctx.record ? 1 : 0;
        return c;
    }

    void begin_sim(RunCtx& ctx, sim_config const& cfg)
    {
        g_ctx = &ctx;
        heapq_enable(true);
        std::set_terminate(on_terminate);
        install_crash_handlers();
        sim_set_fail_handler(on_sim_fail);
        if (ctx.have_script) sim_set_script(ctx.script.data(), ctx.script.size());
        g_log.reserve(1 << 14);
        sim_set_budget_scale((uint64_t) ctx.params.set("sim.budget_scale", 1));
        sim_begin(&cfg);
    }

    // ---------------------------------------------------------------------------------------------
    static std::vector<Workload>& wl()
    {
        static std::vector<Workload> v;
        return v;
    }
    void register_workload(Workload const& w) { wl().push_back(w); }
    std::vector<Workload> const& workloads() { return wl(); }

    // ---------------------------------------------------------------------------------------------
    // focus symbols: read .symtab of every loaded object that lives under /verif/build
    struct Sym
    {
        uintptr_t lo, hi;
        std::string name;
    };
    static std::vector<Sym> g_syms;
    static std::vector<std::string> g_focus_names;    // id -> pattern

    static int phdr_cb(struct dl_phdr_info* info, size_t, void* data)
    {
        auto* pats = (std::vector<std::string> const*) data;
        char const* path = info->dlpi_name;
        std::string p = (path && *path) ? path : "/proc/self/exe";
        if (p != "/proc/self/exe" && p.find("libpika.so") == std::string::npos) return 0;
        int fd = open(p.c_str(), O_RDONLY);
        if (fd < 0) return 0;
        struct stat sb;
        if (fstat(fd, &sb) != 0)
        {
            close(fd);
            return 0;
        }
        void* m = mmap(nullptr, (size_t) sb.st_size, PROT_READ, MAP_PRIVATE, fd, 0);
        close(fd);
        if (m == MAP_FAILED) return 0;
        auto* eh = (Elf64_Ehdr const*) m;
        auto* sh = (Elf64_Shdr const*) ((char const*) m + eh->e_shoff);
        for (int i = 0; i < eh->e_shnum; i++)
        {
            if (sh[i].sh_type != SHT_SYMTAB) continue;
            auto* syms = (Elf64_Sym const*) ((char const*) m + sh[i].sh_offset);
            size_t n = sh[i].sh_size / sizeof(Elf64_Sym);
            char const* strtab = (char const*) m + sh[sh[i].sh_link].sh_offset;
            for (size_t k = 0; k < n; k++)
            {
                if (ELF64_ST_TYPE(syms[k].st_info) != STT_FUNC || syms[k].st_size == 0 ||
                    syms[k].st_shndx == SHN_UNDEF)
                    continue;
                char const* mangled = strtab + syms[k].st_name;
                // cheap pre-filter on the mangled name: every pattern's last identifier must occur
                bool maybe = false;
                for (auto& pat : *pats)
                {
                    size_t c = pat.rfind("::");
                    std::string last = c == std::string::npos ? pat : pat.substr(c + 2);
                    if (strstr(mangled, last.c_str()))
                    {
                        maybe = true;
                        break;
                    }
                }
                if (!maybe) continue;
                int status = 0;
                char* dem = abi::__cxa_demangle(mangled, nullptr, nullptr, &status);
                std::string name = (status == 0 && dem) ? dem : mangled;
                free(dem);
                for (auto& pat : *pats)
                    if (name.find(pat) != std::string::npos)
                    {
                        uintptr_t lo = info->dlpi_addr + syms[k].st_value;
                        g_syms.push_back(Sym{lo, lo + syms[k].st_size, name});
                        break;
                    }
            }
        }
        munmap(m, (size_t) sb.st_size);
        return 0;
    }

    void focus_preload(std::vector<std::string> const& patterns)
    {
        dl_iterate_phdr(phdr_cb, (void*) &patterns);
    }

    int focus_select(RunCtx& ctx, std::vector<std::string> const& pats, int k)
    {
        Rng r(mix_seed(ctx.seed, 13));
        std::vector<std::string> chosen = pats;
        if (k > 0 && (size_t) k < chosen.size())
        {
            for (size_t i = 0; i < chosen.size(); i++)
                std::swap(chosen[i], chosen[i + r.below(chosen.size() - i)]);
            chosen.resize((size_t) k);
        }
        int n = 0;
        g_focus_names = pats;
        for (auto& s : g_syms)
            for (size_t i = 0; i < pats.size(); i++)
            {
                if (s.name.find(pats[i]) == std::string::npos) continue;
                bool sel = false;
                for (auto& c : chosen)
                    if (c == pats[i]) sel = true;
                // unselected patterns are still registered (for hit statistics) when the strategy
                // is not `focus`; under `focus` only the chosen ones attract preemptions
                if (sel || ctx.params.get("sim.strategy") != SIM_FOCUS)
                {
                    sim_add_focus_range(s.lo, s.hi, (int) i);
                    n++;
                }
                break;
            }
        return n;
    }

    void focus_report()
    {
        for (size_t i = 0; i < g_focus_names.size(); i++)
        {
            uint64_t h = sim_focus_hits((int) i);
            if (h) probe(("preempt@" + g_focus_names[i]).c_str(), h);
        }
    }

}    // namespace vh
