// C01 — every submitted task runs exactly once, on one worker at a time.
#include "parties.hpp"

#include <pika/synchronization/event.hpp>
#include <pika/threading_base/register_thread.hpp>
#include <pika/threading_base/thread_helpers.hpp>

#include <memory>

using namespace vh;
namespace ex = pika::execution::experimental;

namespace {

    std::vector<std::string> const c01_focus = {"scheduling_loop", "switch_status", "thread_queue",
        "get_next_thread", "wait_or_add_new", "schedule_thread", "create_thread_object", "cleanup_terminated",
        "recycle_thread", "ConcurrentQueue", "deque<", "thread_data::rebind", "create_work"};
    struct FocusInit
    {
        FocusInit()
        {
            for (auto& s : c01_focus) focus_patterns().push_back(s);
        }
    } focus_init;

    // op = [parent, api, prio, stack, hint, yields, wait_for, submitter]
    //   parent: index of the spawning task (-1: root, submitted from outside the runtime)
    //   wait_for: index (< own index) of a task whose completion this task waits for (-1: none)
    //   submitter: for roots 0 = main thread, 1.. = OS submitter thread
    enum
    {
        API_SCHEDULE_THEN = 0,
        API_EXECUTE = 1,
        API_THREAD_DETACH = 2,
        API_REGISTER_WORK = 3,
        API_REGISTER_THREAD = 4,
        API_TRANSFER_JUST = 5,
        API_COUNT = 6
    };

    struct Task
    {
        int parent = -1, api = 0, prio = 0, stack = 0, hint = -1, yields = 0, wait_for = -1, submitter = 0;
        std::vector<int> children;
        // ledger
        int submitted = 0;
        int entries = 0;
        int completions = 0;
        bool in_phase = false;
        uint64_t tid_at_entry = 0;
        pika::experimental::event done;
    };
    std::vector<std::unique_ptr<Task>> T;
    int g_entered = 0, g_completed = 0;
    std::vector<uint64_t> g_live_ids;
    bool g_spin_waits = false;
    bool g_kf_starvation = false;
    int g_active_spinners = 0;
    int g_policy = 0;
    int g_workers = 1;

    pika::execution::thread_priority prio_of(int p)
    {
        using tp = pika::execution::thread_priority;
        switch (p & 3)
        {
        case 0: return tp::normal;
        case 1: return tp::low;
        case 2: return tp::high;
        default: return tp::boost;
        }
    }
    pika::execution::thread_stacksize stack_of(int s)
    {
        using ts = pika::execution::thread_stacksize;
        switch (s & 3)
        {
        case 0: return ts::small_;
        case 1: return ts::medium;
        case 2: return ts::large;
        default: return ts::huge;
        }
    }

    void phase_begin(Task& t, int idx)
    {
        VH_CHECK(!t.in_phase, "C01.two_workers", "task %d is executing on two workers at once", idx);
        t.in_phase = true;
    }
    void phase_end(Task& t) { t.in_phase = false; }

    void submit(int idx);

    void body(int idx)
    {
        Task& t = *T[(size_t) idx];
        t.entries++;
        g_entered++;
        VH_CHECK(t.entries == 1, "C01.started_twice", "body of task %d entered %d times", idx, t.entries);
        VH_CHECK(t.submitted == 1, "C01.not_submitted", "task %d runs but was submitted %d times", idx, t.submitted);
        phase_begin(t, idx);
        uint64_t my_id = (uint64_t) pika::threads::detail::get_self_id().get();
        VH_CHECK(my_id != 0, "C01.no_task_context", "task %d does not run as a pika task", idx);
        for (uint64_t other : g_live_ids)
            VH_CHECK(other != my_id, "C01.id_shared", "task %d has the id of another live task", idx);
        g_live_ids.push_back(my_id);
        t.tid_at_entry = my_id;
        ev(1, idx);
        size_t nchild = t.children.size();
        // first half of the children, yields, optional wait, second half
        for (size_t c = 0; c < nchild / 2; c++) submit(t.children[c]);
        for (int y = 0; y < t.yields; y++)
        {
            phase_end(t);
            pika::this_thread::yield();
            phase_begin(t, idx);
            VH_CHECK((uint64_t) pika::threads::detail::get_self_id().get() == my_id, "C01.identity",
                "task %d changed identity across a yield", idx);
        }
        // (a spin-wait across priority classes can starve its target by design: only between
        // normal-priority tasks)
        if (t.wait_for >= 0 && t.wait_for < idx && T[(size_t) t.wait_for] && (t.prio & 4) && (t.prio & 3) == 0 &&
            (T[(size_t) t.wait_for]->prio & 3) == 0 && g_spin_waits && (g_active_spinners == 0 || g_kf_starvation))
        {
            // At most one task polls at a time in the main workload: two or more tasks that keep
            // yielding on one worker starve every task that sits in another thread's sub-queue of the
            // worker's (multi-producer) queue - known finding, sub-workload kf_yield_starvation.
            g_active_spinners++;
            // spin-wait (yield_k: after 16 unsuccessful polls the task yields with the boost hint,
            // later it alternates boost / plain yields) until the other task has completed
            Task* other = T[(size_t) t.wait_for].get();
            phase_end(t);
            pika::util::yield_while([other] { return other->completions == 0; }, "C01 spin wait");
            phase_begin(t, idx);
            g_active_spinners--;
            probe("spin_waited_for_other_task");
        }
        else if (t.wait_for >= 0 && t.wait_for < idx && T[(size_t) t.wait_for])
        {
            phase_end(t);
            T[(size_t) t.wait_for]->done.wait();
            phase_begin(t, idx);
            VH_CHECK(T[(size_t) t.wait_for]->completions == 1, "C01.wait_early",
                "task %d resumed before task %d completed", idx, t.wait_for);
            probe("waited_for_other_task");
        }
        for (size_t c = nchild / 2; c < nchild; c++) submit(t.children[c]);
        for (size_t i = 0; i < g_live_ids.size(); i++)
            if (g_live_ids[i] == my_id)
            {
                g_live_ids[i] = g_live_ids.back();
                g_live_ids.pop_back();
                break;
            }
        t.completions++;
        g_completed++;
        VH_CHECK(t.completions == 1, "C01.completed_twice", "task %d completed %d times", idx, t.completions);
        phase_end(t);
        ev(2, idx);
        t.done.set();
        if (t.prio & 8)
        {
            // an interrupt() that raced with the end of the task: requested, never delivered (no interruption point
            // follows). The thread object is recycled; whoever runs on it next must still run to completion.
            pika::threads::detail::get_thread_id_data(pika::threads::detail::get_self_id())->interrupt(true);
            probe("returned_with_interruption_requested");
        }
    }

    void submit(int idx)
    {
        Task& t = *T[(size_t) idx];
        t.submitted++;
        ex::thread_pool_scheduler sched{};
        auto s2 = ex::with_priority(sched, prio_of(t.prio));
        auto s3 = ex::with_stacksize(s2, stack_of(t.stack));
        bool use_hint = t.hint >= 0;
        auto s4 = use_hint ?
            ex::with_hint(s3, pika::execution::thread_schedule_hint((std::int16_t) (t.hint % g_workers))) :
            s3;
        auto fn = [idx] { body(idx); };
        switch (t.api)
        {
        case API_SCHEDULE_THEN:
            ex::start_detached(ex::schedule(s4) | ex::then(fn));
            break;
        case API_EXECUTE:
            ex::execute(s4, fn);
            break;
        case API_THREAD_DETACH:
            if (pika::threads::detail::get_self_ptr())
            {
                pika::thread th(fn);
                th.detach();
            }
            else
                ex::execute(s4, fn);
            break;
        case API_REGISTER_WORK:
        case API_REGISTER_THREAD:
        {
            pika::threads::detail::thread_init_data data(
                pika::threads::detail::make_thread_function_nullary(fn), "C01 task", prio_of(t.prio),
                use_hint ? pika::execution::thread_schedule_hint((std::int16_t) (t.hint % g_workers)) :
                           pika::execution::thread_schedule_hint(),
                stack_of(t.stack));
            if (t.api == API_REGISTER_WORK)
                pika::threads::detail::register_work(data);
            else
                pika::threads::detail::register_thread(data);
            break;
        }
        case API_TRANSFER_JUST:
            ex::start_detached(ex::transfer_just(s4, idx) | ex::then([](int i) { body(i); }));
            break;
        default:
            ex::execute(s4, fn);
            break;
        }
    }

    void run_forest(RunCtx& ctx)
    {
        Rng r(mix_seed(ctx.seed, 100));
        int ntasks = (int) r.logu(5, ctx.thorough ? 200 : 90);
        ctx.params.set("rt.min_thread_count", ntasks + 16);
        pk::draw_runtime(ctx, ctx.thorough ? 16 : 8);
        int nsubmitters = (int) ctx.params.set("c01.os_submitters", r.range(0, 2));
        bool spin_waits = ctx.params.set("c01.spin_waits", r.chance(1, 2) ? 1 : 0) != 0;
        if (!ctx.program_from_replay)
        {
            Program p;
            for (int i = 0; i < ntasks; i++)
            {
                Op op;
                op.v[0] = i == 0 || r.chance(1, 5) ? -1 : (int64_t) r.below((uint64_t) i);
                op.v[1] = (int64_t) r.below(API_COUNT);
                op.v[2] = (r.chance(2, 3) ? 0 : (int64_t) r.below(4)) | (spin_waits && r.chance(1, 2) ? 4 : 0);
                if (r.chance(1, 6)) op.v[2] |= 8;    // an interruption request reaches the task when it is about to return
                op.v[3] = r.chance(2, 3) ? 0 : (int64_t) r.below(4);
                op.v[4] = r.chance(1, 4) ? (int64_t) r.below(16) : -1;
                op.v[5] = r.chance(1, 2) ? 0 : r.range(1, 4);
                op.v[6] = i > 0 && r.chance(1, 4) ? (int64_t) r.below((uint64_t) i) : -1;
                op.v[7] = (int64_t) r.below((uint64_t) nsubmitters + 1);
                p.push_back(op);
            }
            ctx.program = p;
        }
        sim_config sc = draw_sim_config(ctx, 80000, FAULT_STALL | FAULT_TRYFAIL | FAULT_SPURIOUS);
        begin_sim(ctx, sc);
        focus_select(ctx, c01_focus, 3);
        g_dump_hook = +[]() -> std::string {
            std::string s = pk::dump() + sfmt(" | tasks: %zu entered %d completed %d; missing:", T.size(), g_entered, g_completed);
            int shown = 0;
            for (size_t i = 0; i < T.size() && shown < 12; i++)
                if (T[i] && T[i]->completions == 0)
                {
                    s += sfmt(" [%zu sub=%d ent=%d api=%d wait=%d]", i, T[i]->submitted, T[i]->entries, T[i]->api,
                        T[i]->wait_for);
                    shown++;
                }
            return s;
        };
        g_policy = pk::policy(ctx);
        g_workers = pk::workers(ctx);
        // A polling task is re-enqueued through its worker's own sub-queue of the worker's multi-producer
        // queue, which try_dequeue prefers over the sub-queues other threads enqueued into: on a worker that
        // nobody steals from, the awaited task can starve forever (known finding, sub-workload
        // kf_yield_starvation). The main workload polls only where another worker can steal.
        {
            bool steals = pk::steals(ctx);
            g_spin_waits = spin_waits && (steals || g_kf_starvation);
        }
        pk::start(ctx);
        // build the forest; a deleted parent turns its children into roots
        int n = (int) ctx.program.size();
        T.resize((size_t) n);
        for (int i = 0; i < n; i++)
        {
            Op const& op = ctx.program[(size_t) i];
            auto t = std::make_unique<Task>();
            t->parent = (int) op.v[0];
            if (t->parent >= i || t->parent < -1) t->parent = -1;
            t->api = (int) (((op.v[1] % API_COUNT) + API_COUNT) % API_COUNT);
            // known finding (C13): detached pika::thread is fine, but keep shared-priority simple
            t->prio = (int) op.v[2];
            // a spin-waiting task never blocks: it would starve every low-priority task (they only
            // run when nothing else is pending) and whatever depends on one. Runs with spin-waits
            // therefore have no low-priority tasks.
            if (ctx.params.get("c01.spin_waits") && (t->prio & 3) == 1) t->prio &= ~3;
            t->stack = (int) op.v[3];
            t->hint = (int) op.v[4];
            t->yields = (int) (op.v[5] < 0 ? 0 : op.v[5] > 8 ? 8 : op.v[5]);
            t->wait_for = (int) op.v[6];
            if (t->wait_for >= i) t->wait_for = -1;
            t->submitter = (int) op.v[7];
            T[(size_t) i] = std::move(t);
        }
        std::vector<int> roots;
        for (int i = 0; i < n; i++)
        {
            if (T[(size_t) i]->parent >= 0)
                T[(size_t) T[(size_t) i]->parent]->children.push_back(i);
            else
                roots.push_back(i);
        }
        // a low-priority task that waits for another task can starve forever behind... no: waiting
        // suspends; low priority tasks run when nothing else is pending. Fine.
        std::vector<std::thread> subs;
        for (int s = 1; s <= nsubmitters; s++)
            subs.emplace_back([s, &roots] {
                for (int i : roots)
                    if (T[(size_t) i]->submitter == s)
                    {
                        submit(i);
                        std::this_thread::yield();
                    }
            });
        if (g_kf_starvation && n == 4)
        {
            submit(0);
            while (g_completed < 1) main_pause(3000000);
            submit(2);
            submit(3);
            while (g_entered < 3) main_pause(3000000);
            submit(1);
        }
        else
            for (int i : roots)
                if (T[(size_t) i]->submitter == 0 || T[(size_t) i]->submitter > nsubmitters) submit(i);
        for (auto& th : subs) th.join();
        while (g_completed < n) main_pause(3000000);
        sim_quiesce(3000000);
        pika::wait();
        for (int i = 0; i < n; i++)
        {
            Task& t = *T[(size_t) i];
            VH_CHECK(t.submitted == 1, "C01.harness", "task %d submitted %d times", i, t.submitted);
            VH_CHECK(t.entries == 1, t.entries == 0 ? "C01.dropped" : "C01.started_twice",
                "after pika::wait() task %d has been entered %d times", i, t.entries);
            VH_CHECK(t.completions == 1, "C01.not_completed", "after pika::wait() task %d completed %d times", i, t.completions);
        }
        int entered_at_wait = g_entered;
        size_t events_at_stop;
        pk::stop();
        events_at_stop = g_log.size();
        main_pause();
        VH_CHECK(g_entered == entered_at_wait && g_log.size() == events_at_stop, "C01.after_stop",
            "task bodies ran after stop() returned");
        probe("tasks", (uint64_t) n);
        focus_report();
    }

    // known finding: two yielding pollers on one worker starve a task created with run_now
    // (register_thread / pika::thread) from another thread
    void run_kf_starvation(RunCtx& ctx)
    {
        g_kf_starvation = true;
        ctx.params.force("rt.workers", 1);
        ctx.params.force("c01.spin_waits", 1);
        ctx.params.force("c01.os_submitters", 0);
        if (!ctx.program_from_replay)
        {
            // task 0: register_thread from the main thread (creates the main thread's sub-queue in the
            // worker's queue first); tasks 2 and 3: submitted with execute, both poll (yield_while)
            // for task 1; task 1: register_thread from the main thread once both pollers run.
            Program p;
            Op t0;
            t0.v[0] = -1;
            t0.v[1] = API_REGISTER_THREAD;
            t0.v[4] = -1;
            t0.v[6] = -1;
            p.push_back(t0);
            p.push_back(t0);
            for (int i = 0; i < 2; i++)
            {
                Op s;
                s.v[0] = -1;
                s.v[1] = API_EXECUTE;
                s.v[2] = 4;
                s.v[4] = -1;
                s.v[6] = 1;
                p.push_back(s);
            }
            ctx.program = p;
            ctx.program_from_replay = true;
        }
        run_forest(ctx);
    }

    Registrar r1(Workload{"C01", "forest", 100, run_forest, pk::preload});
    Registrar r2(Workload{"C01", "kf_yield_starvation", 0, run_kf_starvation, pk::preload});

}    // namespace
