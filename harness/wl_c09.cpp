// C09 — latch, barrier, event and call_once release exactly when due.
#include "parties.hpp"

#include <pika/barrier.hpp>
#include <pika/latch.hpp>
#include <pika/synchronization/event.hpp>
#include <pika/synchronization/once.hpp>

#include <memory>
#include <stdexcept>

using namespace vh;

namespace {

    std::vector<std::string> const c09_focus = {"barrier", "latch", "event", "call_once", "once_flag", "condition_variable::wait", "condition_variable::notify_one", "execution_agent::do_yield", "set_thread_state"};
    struct FocusInit
    {
        FocusInit()
        {
            for (auto& s : c09_focus) focus_patterns().push_back(s);
        }
    } focus_init;


    void yield_here(int kind, int times)
    {
        for (int i = 0; i < times; i++)
        {
            if (kind == PARTY_OS)
                std::this_thread::yield();
            else
                pika::this_thread::yield();
        }
    }

    // =============================================================================================
    // latch
    enum
    {
        L_COUNT_DOWN = 1,    // a = n
        L_ARRIVE_WAIT = 2,   // a = n
        L_WAIT = 3,
        L_TRY_WAIT = 4,
        L_YIELD = 5,
    };
    struct LatchState
    {
        int64_t count = 0;
        int64_t unclaimed = 0;      // not yet claimed by any party
        int64_t arrived_inv = 0;    // sum of updates whose call has been invoked
        int blocked = 0;
    };
    LatchState LS;

    int64_t claim(int64_t want)
    {
        int64_t c = want < LS.unclaimed ? want : LS.unclaimed;
        LS.unclaimed -= c;
        return c;
    }
    void released_check(char const* what)
    {
        VH_CHECK(LS.arrived_inv >= LS.count, "C09.latch.early_release",
            "%s returned although only %lld of %lld had been counted down", what,
            (long long) LS.arrived_inv, (long long) LS.count);
    }

    void run_latch(RunCtx& ctx)
    {
        pk::draw_runtime(ctx, ctx.thorough ? 8 : 5);
        Rng r(mix_seed(ctx.seed, 60));
        int nparties = (int) ctx.params.set("c09.parties", r.range(1, 7));
        int64_t os_mask = ctx.params.set("c09.os_mask", r.chance(1, 2) ? (int64_t) r.below(128) : 0);
        LS.count = ctx.params.set("c09.count", r.range(0, 8));
        LS.unclaimed = LS.count;
        if (!ctx.program_from_replay)
        {
            Program p;
            int nops = (int) r.range(1, 16);
            for (int i = 0; i < nops; i++)
            {
                Op op;
                op.v[0] = (int64_t) r.below((uint64_t) nparties);
                uint64_t x = r.below(100);
                op.v[1] = x < 35 ? L_COUNT_DOWN : x < 60 ? L_ARRIVE_WAIT : x < 80 ? L_WAIT : x < 90 ? L_TRY_WAIT : L_YIELD;
                op.v[2] = r.range(0, 3);
                p.push_back(op);
            }
            ctx.program = p;
        }
        sim_config sc = draw_sim_config(ctx, 50000, FAULT_STALL | FAULT_TRYFAIL);
        begin_sim(ctx, sc);
        focus_select(ctx, c09_focus, 3);
        g_dump_hook = +[]() -> std::string {
            return pk::dump() +
                sfmt(" | latch model: count=%lld arrived=%lld unclaimed=%lld blocked=%d",
                    (long long) LS.count, (long long) LS.arrived_inv, (long long) LS.unclaimed,
                    LS.blocked);
        };
        pk::start(ctx);
        static pika::latch l((std::ptrdiff_t) LS.count);
        static Parties P;
        std::vector<int> kinds;
        for (int i = 0; i < nparties; i++) kinds.push_back((os_mask >> i) & 1 ? PARTY_OS : PARTY_TASK);
        Program const& prog = ctx.program;
        P.launch(kinds, [&prog, kinds](int me) {
            int kind = kinds[(size_t) me];
            for (auto const& op : prog)
            {
                if (op.v[0] != me) continue;
                switch (op.v[1])
                {
                case L_COUNT_DOWN:
                {
                    int64_t c = claim(op.v[2]);
                    LS.arrived_inv += c;
                    ev(L_COUNT_DOWN, me, c);
                    l.count_down((std::ptrdiff_t) c);
                    break;
                }
                case L_ARRIVE_WAIT:
                {
                    int64_t c = claim(op.v[2]);
                    LS.arrived_inv += c;
                    ev(L_ARRIVE_WAIT, me, c);
                    LS.blocked++;
                    l.arrive_and_wait((std::ptrdiff_t) c);
                    LS.blocked--;
                    released_check("arrive_and_wait");
                    probe("latch.arrive_and_wait");
                    break;
                }
                case L_WAIT:
                    LS.blocked++;
                    l.wait();
                    LS.blocked--;
                    released_check("wait");
                    probe("latch.wait");
                    break;
                case L_TRY_WAIT:
                    if (l.try_wait())
                    {
                        released_check("try_wait()==true");
                        probe("latch.try_wait.true");
                    }
                    break;
                case L_YIELD:
                    yield_here(kind, (int) op.v[2]);
                    break;
                default:
                    break;
                }
            }
        });
        while (!P.all_finished())
        {
            // everybody left is blocked and the program has no count-downs left: main supplies them
            if (LS.blocked == P.n - P.nfinished && LS.unclaimed > 0)
            {
                int64_t c = claim(LS.unclaimed);
                LS.arrived_inv += c;
                l.count_down((std::ptrdiff_t) c);
                probe("latch.topup");
            }
            main_pause();
        }
        P.join_os();
        if (LS.unclaimed == 0) VH_CHECK(l.try_wait(), "C09.latch.not_released", "count reached zero but try_wait() is false");
        pk::stop();
    }

    // =============================================================================================
    // barrier
    enum
    {
        B_ARRIVE_AND_WAIT = 0,
        B_ARRIVE_THEN_WAIT = 1,    // token = arrive(); yields; wait(token)
        B_DROP = 2,                // arrive_and_drop, participant leaves
        B_DELEGATE = 3,            // does not arrive in this phase itself: another participant arrives for both
                                   // (arrive(update) with update > 1) and this one only waits for the phase to end
    };
    struct BarrierState
    {
        int n = 0;
        int phases = 0;
        std::vector<int> arrived;     // per phase: arrivals invoked
        std::vector<int> expected;    // per phase: expected arrivals (n - earlier drops)
        int completions = 0;
        int in_completion = 0;
        std::vector<int> departed;
    };
    BarrierState BS;

    struct Completion
    {
        void operator()() noexcept
        {
            int k = BS.completions;
            BS.in_completion++;
            if (k < BS.phases)
                VH_CHECK(BS.arrived[(size_t) k] == BS.expected[(size_t) k], "C09.barrier.completion_early",
                    "completion of phase %d ran after %d of %d arrivals", k, BS.arrived[(size_t) k],
                    BS.expected[(size_t) k]);
            VH_CHECK(BS.in_completion == 1, "C09.barrier.completion_twice", "completion function re-entered");
            ev(100, k);
            BS.completions++;
            BS.in_completion--;
        }
    };

    void run_barrier(RunCtx& ctx)
    {
        pk::draw_runtime(ctx, ctx.thorough ? 8 : 5);
        Rng r(mix_seed(ctx.seed, 61));
        // one run in six reuses one barrier for hundreds of phases (few participants): its internal phase
        // counters are 8 bits wide and wrap every 128 phases
        bool long_run = r.chance(1, 6);
        int n = (int) ctx.params.set("c09.participants", long_run ? r.range(2, 3) : r.range(1, 9));
        int phases = (int) ctx.params.set("c09.phases", long_run ? r.range(130, 300) : r.range(1, 5));
        if (phases > 128) probe("barrier.more_than_128_phases");
        int64_t os_mask = ctx.params.set("c09.os_mask", r.chance(1, 2) ? (int64_t) r.below(512) : 0);
        // program ops are modifiers: [participant, phase, action, yields]; default = arrive_and_wait
        if (!ctx.program_from_replay)
        {
            Program p;
            int nops = (int) r.range(0, 12);
            for (int i = 0; i < nops; i++)
            {
                Op op;
                op.v[0] = (int64_t) r.below((uint64_t) n);
                op.v[1] = (int64_t) r.below((uint64_t) phases);
                op.v[2] = r.chance(1, 5) ? B_DROP : r.chance(1, 5) ? B_DELEGATE : B_ARRIVE_THEN_WAIT;
                op.v[3] = r.range(0, 3);
                // the optional busy-wait timeout of wait/arrive_and_wait: spin for that long before blocking
                // (0: none; 1-3: shorter and longer than the time the others take to arrive)
                if (r.chance(1, 3)) op.v[4] = (int64_t) r.range(1, 3);
                if (op.v[4] && r.chance(1, 2) && op.v[2] != B_DELEGATE) op.v[2] = B_ARRIVE_AND_WAIT;
                p.push_back(op);
            }
            ctx.program = p;
        }
        // resolve actions; a participant may drop only if somebody remains
        std::vector<std::vector<int>> action((size_t) n, std::vector<int>((size_t) phases, B_ARRIVE_AND_WAIT));
        std::vector<std::vector<int>> yields((size_t) n, std::vector<int>((size_t) phases, 0));
        std::vector<std::vector<double>> busy((size_t) n, std::vector<double>((size_t) phases, 0.0));
        static double const busy_s[4] = {0.0, 1e-9, 2e-6, 1e-4};
        for (auto const& op : ctx.program)
        {
            if (op.v[0] < 0 || op.v[0] >= n || op.v[1] < 0 || op.v[1] >= phases) continue;
            action[(size_t) op.v[0]][(size_t) op.v[1]] = (int) op.v[2];
            yields[(size_t) op.v[0]][(size_t) op.v[1]] = (int) op.v[3];
            busy[(size_t) op.v[0]][(size_t) op.v[1]] = busy_s[op.v[4] & 3];
        }
        BS.n = n;
        BS.phases = phases;
        BS.arrived.assign((size_t) phases, 0);
        BS.expected.assign((size_t) phases, 0);
        BS.departed.assign((size_t) phases, 0);
        std::vector<std::vector<int>> update((size_t) n, std::vector<int>((size_t) phases, 1));
        {
            std::vector<bool> gone((size_t) n, false);
            int alive = n;
            for (int k = 0; k < phases; k++)
            {
                BS.expected[(size_t) k] = alive;
                // delegations: the first other participant that arrives itself in this phase carries the arrival
                for (int i = 0; i < n; i++)
                {
                    if (action[(size_t) i][(size_t) k] != B_DELEGATE) continue;
                    int carrier = -1;
                    for (int j = 0; j < n && carrier < 0; j++)
                        if (j != i && !gone[(size_t) j] && action[(size_t) j][(size_t) k] != B_DELEGATE &&
                            action[(size_t) j][(size_t) k] != B_DROP)
                            carrier = j;
                    if (gone[(size_t) i] || carrier < 0)
                        action[(size_t) i][(size_t) k] = B_ARRIVE_AND_WAIT;
                    else
                    {
                        update[(size_t) carrier][(size_t) k]++;
                        if (action[(size_t) carrier][(size_t) k] == B_ARRIVE_AND_WAIT) action[(size_t) carrier][(size_t) k] = B_ARRIVE_THEN_WAIT;
                    }
                }
                for (int i = 0; i < n; i++)
                {
                    if (gone[(size_t) i]) continue;
                    if (action[(size_t) i][(size_t) k] == B_DROP)
                    {
                        if (alive > 1)
                        {
                            gone[(size_t) i] = true;
                            alive--;
                        }
                        else
                            action[(size_t) i][(size_t) k] = B_ARRIVE_AND_WAIT;
                    }
                }
            }
        }
        sim_config sc = draw_sim_config(ctx, 80000, FAULT_STALL | FAULT_CLOCKJUMP);
        begin_sim(ctx, sc);
        focus_select(ctx, c09_focus, 3);
        g_dump_hook = +[]() -> std::string {
            std::string s = pk::dump() + sfmt(" | barrier model: completions=%d arrived:", BS.completions);
            for (int k = 0; k < BS.phases; k++) s += sfmt(" %d/%d", BS.arrived[(size_t) k], BS.expected[(size_t) k]);
            return s;
        };
        pk::start(ctx);
        static pika::barrier<Completion> bar((std::ptrdiff_t) n, Completion{});
        static Parties P;
        std::vector<int> kinds;
        for (int i = 0; i < n; i++) kinds.push_back((os_mask >> i) & 1 ? PARTY_OS : PARTY_TASK);
        P.launch(kinds, [kinds, action, yields, busy, update, phases](int me) {
            int kind = kinds[(size_t) me];
            for (int k = 0; k < phases; k++)
            {
                int a = action[(size_t) me][(size_t) k];
                std::chrono::duration<double> const bw(busy[(size_t) me][(size_t) k]);
                if (bw.count() > 0) probe("barrier.busy_wait_timeout");
                yield_here(kind, yields[(size_t) me][(size_t) k] & 1);
                if (a == B_DELEGATE)
                {
                    // somebody else arrives for this participant; it must not go on to the next phase before this one
                    // is over, i.e. before a participant that waited has left it (the completion function runs before
                    // the barrier switches to the next phase: an arrival right after it would still count for this one)
                    // (polls by yielding like barrier::wait itself does; parking and being resumed by another thread
                    // would queue this task where the yielding waiters starve it - C01's known finding)
                    while (BS.departed[(size_t) k] == 0) yield_here(kind, 1);
                    probe("barrier.delegated_arrival");
                    continue;
                }
                int const upd = update[(size_t) me][(size_t) k];
                BS.arrived[(size_t) k] += upd;
                ev(10 + a, me, k);
                if (a == B_DROP)
                {
                    bar.arrive_and_drop();
                    probe("barrier.drop");
                    return;
                }
                if (a == B_ARRIVE_THEN_WAIT)
                {
                    auto tok = bar.arrive((std::ptrdiff_t) upd);
                    yield_here(kind, yields[(size_t) me][(size_t) k]);
                    bar.wait(std::move(tok), bw);
                    probe("barrier.arrive_then_wait");
                }
                else
                    bar.arrive_and_wait(bw);
                // departure from phase k: everybody expected has arrived and the completion ran
                VH_CHECK(BS.arrived[(size_t) k] == BS.expected[(size_t) k], "C09.barrier.early_departure",
                    "participant %d left phase %d after %d of %d arrivals", me, k, BS.arrived[(size_t) k],
                    BS.expected[(size_t) k]);
                VH_CHECK(BS.completions >= k + 1, "C09.barrier.departure_before_completion",
                    "participant %d left phase %d before its completion function ran (%d completions)",
                    me, k, BS.completions);
                BS.departed[(size_t) k]++;
            }
        });
        while (!P.all_finished()) main_pause(3000000);
        P.join_os();
        sim_quiesce(3000000);
        VH_CHECK(BS.completions == phases, "C09.barrier.completion_count",
            "%d completion calls for %d phases", BS.completions, phases);
        pk::stop();
    }

    // =============================================================================================
    // event
    struct EventState
    {
        int set_inv = 0;
        int blocked = 0;
    };
    EventState ES;

    void run_event(RunCtx& ctx)
    {
        pk::draw_runtime(ctx, 5);
        Rng r(mix_seed(ctx.seed, 62));
        int nparties = (int) ctx.params.set("c09.parties", r.range(1, 7));
        int64_t os_mask = ctx.params.set("c09.os_mask", r.chance(1, 2) ? (int64_t) r.below(128) : 0);
        if (!ctx.program_from_replay)
        {
            Program p;
            int nops = (int) r.range(1, 12);
            for (int i = 0; i < nops; i++)
            {
                Op op;
                op.v[0] = (int64_t) r.below((uint64_t) nparties);
                uint64_t x = r.below(100);
                op.v[1] = x < 60 ? 1 : x < 80 ? 2 : 3;    // 1 wait, 2 set, 3 yield
                op.v[2] = r.range(0, 3);
                p.push_back(op);
            }
            ctx.program = p;
        }
        sim_config sc = draw_sim_config(ctx, 40000, FAULT_STALL);
        begin_sim(ctx, sc);
        focus_select(ctx, c09_focus, 3);
        g_dump_hook = pk::dump;
        pk::start(ctx);
        static pika::experimental::event e;
        static Parties P;
        std::vector<int> kinds;
        for (int i = 0; i < nparties; i++) kinds.push_back((os_mask >> i) & 1 ? PARTY_OS : PARTY_TASK);
        Program const& prog = ctx.program;
        P.launch(kinds, [&prog, kinds](int me) {
            for (auto const& op : prog)
            {
                if (op.v[0] != me) continue;
                if (op.v[1] == 1)
                {
                    ES.blocked++;
                    e.wait();
                    ES.blocked--;
                    VH_CHECK(ES.set_inv > 0, "C09.event.early_release", "event::wait returned before any set()");
                    VH_CHECK(e.occurred(), "C09.event.early_release", "event::wait returned, occurred() is false");
                    probe("event.wait");
                }
                else if (op.v[1] == 2)
                {
                    ES.set_inv++;
                    e.set();
                }
                else
                    yield_here(kinds[(size_t) me], (int) op.v[2]);
            }
        });
        while (!P.all_finished())
        {
            if (ES.blocked == P.n - P.nfinished && ES.set_inv == 0)
            {
                ES.set_inv++;
                e.set();
                probe("event.topup");
            }
            main_pause();
        }
        P.join_os();
        pk::stop();
    }

    // =============================================================================================
    // call_once
    struct OnceState
    {
        int attempts = 0;
        int successes = 0;
        int in_f = 0;
        int throw_first = 0;
        uint64_t success_seq = 0;
    };
    OnceState OS;

    void run_once(RunCtx& ctx)
    {
        pk::draw_runtime(ctx, 5);
        Rng r(mix_seed(ctx.seed, 63));
        int nparties = (int) ctx.params.set("c09.parties", r.range(2, 6));
        int64_t os_mask = ctx.params.set("c09.os_mask", r.chance(1, 2) ? (int64_t) r.below(64) : 0);
        OS.throw_first = (int) ctx.params.set("c09.throw_first", r.chance(1, 2) ? r.range(1, 3) : 0);
        if (!ctx.program_from_replay)
        {
            Program p;
            for (int i = 0; i < nparties; i++)
            {
                Op op;
                op.v[0] = i;
                op.v[1] = r.range(0, 3);    // yields before
                op.v[2] = r.range(0, 2);    // yields inside f
                op.v[3] = r.chance(1, 2) ? 1 : 0;    // after an attempt of its own that threw: give up instead of retrying
                p.push_back(op);
            }
            ctx.program = p;
        }
        sim_config sc = draw_sim_config(ctx, 40000, FAULT_STALL);
        begin_sim(ctx, sc);
        focus_select(ctx, c09_focus, 3);
        g_dump_hook = pk::dump;
        pk::start(ctx);
        static pika::once_flag flag;
        static Parties P;
        std::vector<int> kinds;
        for (int i = 0; i < nparties; i++) kinds.push_back((os_mask >> i) & 1 ? PARTY_OS : PARTY_TASK);
        Program const& prog = ctx.program;
        P.launch(kinds, [&prog, kinds](int me) {
            int kind = kinds[(size_t) me];
            for (auto const& op : prog)
            {
                if (op.v[0] != me) continue;
                yield_here(kind, (int) op.v[1]);
                int inner = (int) op.v[2];
                for (int tries = 0; tries < 8; tries++)
                {
                    bool ran_here = false, threw_here = false;
                    try
                    {
                        pika::call_once(flag, [&] {
                            ran_here = true;
                            OS.in_f++;
                            VH_CHECK(OS.in_f == 1, "C09.once.overlap", "two callers execute the callable at once");
                            VH_CHECK(OS.successes == 0, "C09.once.twice", "callable executed again after it succeeded");
                            int a = ++OS.attempts;
                            yield_here(kind, inner);
                            OS.in_f--;
                            if (a <= OS.throw_first)
                            {
                                threw_here = true;
                                probe("once.throw");
                                throw std::runtime_error("call_once attempt fails");
                            }
                            OS.successes++;
                            OS.success_seq = sim_seq();
                        });
                    }
                    catch (std::runtime_error const&)
                    {
                        VH_CHECK(ran_here && threw_here, "C09.once.exception_wrong_caller",
                            "party %d received an exception thrown by another caller's attempt", me);
                        if (op.v[3] & 1)
                        {
                            // this caller does not come back: the callers that are blocked in call_once have to
                            // retry by themselves
                            probe("once.thrower_gave_up");
                            break;
                        }
                        continue;    // retry
                    }
                    VH_CHECK(!threw_here, "C09.once.exception_lost", "the throwing attempt of party %d did not propagate", me);
                    VH_CHECK(OS.successes == 1 && OS.success_seq != 0, "C09.once.early_return",
                        "call_once returned to party %d before the callable had finished successfully (%d successes)",
                        me, OS.successes);
                    break;
                }
            }
        });
        while (!P.all_finished()) main_pause();
        P.join_os();
        sim_quiesce(2000000);
        {
            // the callable succeeds unless every caller gave up after a throwing attempt of its own
            int stayers = 0;
            for (auto const& op : prog)
                if (!(op.v[3] & 1)) stayers++;
            if (!prog.empty() && (stayers > 0 || (int) prog.size() > OS.throw_first))
                VH_CHECK(OS.successes == 1, "C09.once.count", "callable succeeded %d times", OS.successes);
            VH_CHECK(OS.successes <= 1, "C09.once.twice", "callable succeeded %d times", OS.successes);
        }
        pk::stop();
    }

    Registrar r1(Workload{"C09", "latch", 30, run_latch, pk::preload});
    Registrar r2(Workload{"C09", "barrier", 35, run_barrier, pk::preload});
    Registrar r3(Workload{"C09", "event", 15, run_event, pk::preload});
    Registrar r4(Workload{"C09", "call_once", 20, run_once, pk::preload});

}    // namespace
