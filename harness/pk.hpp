// pika runtime helper for workloads that run on the full runtime.
#pragma once
#include "common.hpp"

#include <pika/init.hpp>
#include <pika/runtime.hpp>

#include <functional>
#include <string>
#include <vector>

namespace vh::pk {

    extern char const* const policy_names[8];
    enum
    {
        POL_LOCAL = 0,
        POL_LOCAL_PRIO_FIFO,
        POL_LOCAL_PRIO_LIFO,
        POL_STATIC,
        POL_STATIC_PRIO,
        POL_ABP_FIFO,
        POL_ABP_LIFO,
        POL_SHARED_PRIO,
    };

    // draw the runtime configuration into ctx.params ("rt.*"); stream distinguishes incarnations
    void draw_runtime(RunCtx& ctx, int max_workers, unsigned policy_mask = 0xff, int stream = 0);
    // build argv/cfg from ctx.params and start the runtime (no entry function unless given)
    void start(RunCtx& ctx, std::function<int()> entry = {},
        std::function<void(pika::resource::partitioner&)> rp_cb = {});
    // finalize + stop; returns stop()'s value
    int stop();
    // extra pools: PUs are taken from the front; the default pool keeps rt.workers threads
    struct PoolSpec
    {
        std::string name;
        int policy;
        int threads;
        int mode;    // -1: pika default mode; else scheduler_mode bits
    };
    void start_with_pools(RunCtx& ctx, std::vector<PoolSpec> const& pools, std::function<int()> entry = {});
    void preload();    // zygote: load topology etc.
    std::string dump();
    int workers(RunCtx& ctx);
    int policy(RunCtx& ctx);
    // can an idle worker take over pending work of another worker in the drawn configuration (policy, mode
    // bits, minimum queue lengths for stealing, >= 2 workers)? Workloads in which a task polls (spins with
    // yields) while the task it waits for may sit in its own worker's queue need this: see C01's known finding.
    bool steals(RunCtx& ctx);

}    // namespace vh::pk
