#!/usr/bin/env python3
"""Configure (once) and build the harness runner against the instrumented pika build tree."""
import os, subprocess, sys
V = os.environ.get("VERIF_ROOT", os.path.dirname(os.path.dirname(os.path.abspath(__file__))))
B = os.environ.get("VERIF_BUILD", V + "/build")
H = B + "/harness"
SIM = ("-fsanitize=thread -mllvm -tsan-instrument-func-entry-exit=0 "
       "-mllvm -tsan-instrument-memintrinsics=0 -mllvm -tsan-handle-cxx-exceptions=0 "
       "-DMOODYCAMEL_CPP11_THREAD_LOCAL_SUPPORTED")    # as in build.sh (see there)
import hashlib, shutil
stamp = hashlib.sha1((SIM + open(V + "/harness/CMakeLists.txt").read()).encode()).hexdigest()
try:
    old = open(H + "/flags.stamp").read()
except OSError:
    old = ""
if old != stamp and os.path.isdir(H):
    shutil.rmtree(H)    # compile flags changed: configure from scratch
os.makedirs(H, exist_ok=True)
open(H + "/flags.stamp", "w").write(stamp)
if not os.path.exists(H + "/build.ninja"):
    r = subprocess.call(["cmake", "-G", "Ninja", "-S", V + "/harness", "-B", H,
        "-DCMAKE_CXX_COMPILER=clang++-14", "-DCMAKE_BUILD_TYPE=Release",
        "-Dpika_DIR=" + B + "/pika-sim/lib/cmake/pika",
        "-Dfmt_DIR=/usr/lib/x86_64-linux-gnu/cmake/fmt",
        "-DCMAKE_CXX_FLAGS=" + SIM + " -DPIKA_VERIF_SIM -Wno-unused-command-line-argument -O2 -g",
        "-DCMAKE_CXX_FLAGS_RELEASE=-O2",
        "-DCMAKE_EXE_LINKER_FLAGS=-fno-sanitize=thread -Wl,--no-as-needed -L" + B + " -lpikasim -Wl,-rpath," + B])
    if r != 0:
        sys.exit(r)
sys.exit(subprocess.call(["ninja", "-C", H, "runner"]))
