#!/bin/bash
# Runs the repository's pinned baseline exactly as recorded in /root/.vp/BASELINE.json: incremental build of
# /repo/_build (guard PIKA_VERIF_SIM is NOT defined there; there are no source hooks anyway) and its ctest line.
# Exit 0 iff every test of BASELINE.stable_pass passes.
set -u
B=/repo/_build
J=$(nproc 2>/dev/null || echo 8)
mkdir -p /verif/build
cmake --build $B -j$J -- -k0 > /verif/build/baseline_build.log 2>&1
echo "build rc=$?"
ctest --test-dir $B -j8 --timeout 900 --output-junit /verif/build/baseline.junit.xml > /verif/build/baseline_test.log 2>&1
echo "ctest rc=$?"
python3 - <<'PY'
import json, sys, xml.etree.ElementTree as ET
base = json.load(open('/root/.vp/BASELINE.json'))
want = set(x.split('::')[0] for x in base['stable_pass'])
t = ET.parse('/verif/build/baseline.junit.xml')
passed = set()
for tc in t.getroot().iter('testcase'):
    ok = tc.find('failure') is None and tc.find('error') is None and tc.find('skipped') is None and tc.get('status', 'run') in ('run', 'passed')
    if ok:
        passed.add(tc.get('name'))
missing = sorted(want - passed)
print("baseline: %d/%d stable tests pass" % (len(want) - len(missing), len(want)))
if missing:
    print("NOT PASSING:", missing[:20])
    sys.exit(1)
PY
