#!/bin/bash
# Soak: the quick tier of every claimed property over a long seed range (default seeds 1..200000), so that any
# VERIF_SEED base in that range has been seen. usage: soak.sh [runs] [first-seed]; env VERIF_JOBS.
cd "$(dirname "$(readlink -f "$0")")/.."
RUNS=${1:-200000}; SEED=${2:-1}
mkdir -p build/soak_out
for p in $(python3 -c "import json; print(' '.join(c['property_id'] for c in json.load(open('MANIFEST.json'))['checks']))"); do
  VERIF_SEED=$SEED VERIF_RUNS=$RUNS VERIF_TIME=${SOAK_TIME:-7200} VERIF_OUT=$PWD/build/soak_out scripts/check.sh $p quick > build/soak.$p.log 2>&1
  echo "$p exit=$? $(grep -a 'quick:' build/soak.$p.log | cut -c1-70) $(grep -a -c '^VIOLATION' build/soak.$p.log) violations"
done
