#!/usr/bin/env python3
"""Replace the table of Appendix B.3 in DESIGN.md by the output of seeded_table.py."""
import os, subprocess, sys
V = os.path.dirname(os.path.dirname(os.path.abspath(__file__)))
tab = subprocess.check_output([sys.executable, V + "/scripts/seeded_table.py"], text=True).rstrip("\n").split("\n")
L = open(V + "/DESIGN.md").read().split("\n")
i = next(k for k, l in enumerate(L) if l.startswith("| Seeded defect |"))
j = i
while j < len(L) and L[j].startswith("|"):
    j += 1
open(V + "/DESIGN.md", "w").write("\n".join(L[:i] + tab + L[j:]))
print("table: %d rows" % (len(tab) - 2))
