#!/bin/bash
# usage: check.sh <property> quick|thorough
exec python3 "$(dirname "$(readlink -f "$0")")/check.py" "$@"
