#!/bin/bash
# usage: check.sh <property> quick|thorough
exec python3 /verif/scripts/check.py "$@"
