#!/bin/bash
# Confirm an independently produced seeded defect in its scratch worktree /tmp/mut/<ID>:
# the demo must fail with the patch and pass without it. usage: confirm_seeded.sh <ID>
ID=$1; WT=/tmp/mut/$ID; OUT=/verif/build/seeded_results/$ID.confirm.txt
mkdir -p /verif/build/seeded_results
cd $WT || exit 2
{
  echo "== state: $(git -C $WT diff --stat -- libs | tail -1)"
  if git -C $WT apply --check -R patch.diff 2>/dev/null; then echo "patch is applied"; else git -C $WT apply patch.diff && echo "patch applied now"; fi
  [ -f $WT/_b/build.ninja ] && ninja -j8 -C $WT/_b pika > /dev/null 2>&1
  echo "== demo WITH the change"; ( cd demo && timeout 1800 bash ./run.sh ) > $OUT.with 2>&1; echo "exit=$?"; tail -5 $OUT.with
  git -C $WT apply -R patch.diff && echo "patch reverted"
  [ -f $WT/_b/build.ninja ] && ninja -j8 -C $WT/_b pika > /dev/null 2>&1
  echo "== demo WITHOUT the change"; ( cd demo && timeout 1800 bash ./run.sh ) > $OUT.without 2>&1; echo "exit=$?"; tail -5 $OUT.without
  git -C $WT apply patch.diff && echo "patch re-applied"
  [ -f $WT/_b/build.ninja ] && ninja -j8 -C $WT/_b pika > /dev/null 2>&1
} > $OUT 2>&1
grep -E "^exit=|^==" $OUT
