#!/usr/bin/env python3
"""mkpatch.py <repo-relative file> <out.diff> : reads OLD and NEW text blocks from stdin separated by a line '=====' and
writes a unified diff replacing the first occurrence of OLD by NEW in /repo's file (the file itself is not modified)."""
import sys, subprocess, os, tempfile, shutil
rel, out = sys.argv[1], sys.argv[2]
data = sys.stdin.read()
old, new = data.split('\n=====\n')
if new.endswith('\n') and not old.endswith('\n'):
    new = new[:-1]
s = open('/repo/' + rel).read()
assert old in s, "OLD text not found"
t = s.replace(old, new, 1)
d = tempfile.mkdtemp()
for name, content in (('a', s), ('b', t)):
    p = os.path.join(d, name, rel)
    os.makedirs(os.path.dirname(p), exist_ok=True)
    open(p, 'w').write(content)
r = subprocess.run(['diff', '-u', 'a/' + rel, 'b/' + rel], cwd=d, capture_output=True, text=True)
open(out, 'w').write(r.stdout)
shutil.rmtree(d)
print(r.stdout)
