#!/bin/bash
# Sequential worker for seeded-defect jobs. Reads lines "<seeded-name> <property> <agent-dir-id>" appended to
# build/seeded_todo.txt; for each: selftest of the property's quick check on the patched tree, then confirmation
# of the agent's demo with/without the change. Stops when a line "STOP" is read.
cd /verif
touch build/seeded_todo.txt
n=0
while :; do
  total=$(wc -l < build/seeded_todo.txt)
  if [ "$n" -lt "$total" ]; then
    n=$((n+1))
    line=$(sed -n "${n}p" build/seeded_todo.txt)
    [ "$line" = "STOP" ] && exit 0
    set -- $line
    echo "== $1 $2 ($(date +%H:%M))"
    scripts/try_seeded.sh $1 $2
    if [ -n "${3:-}" ] && [ -d /tmp/mut/$3 ]; then echo "### $3"; nice -n 10 scripts/confirm_seeded.sh $3; fi
  else
    sleep 15
  fi
done
