#!/bin/bash
exec python3 /verif/scripts/replay.py "$@"
