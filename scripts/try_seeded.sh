#!/bin/bash
# usage: try_seeded.sh <seeded-name> <property> [tier]  -> build/seeded_results/<name>.<prop>.txt
mkdir -p /verif/build/seeded_results
OUT=/verif/build/seeded_results/$1.$2.txt
( time SELFTEST_KEEP_REPLAYS=/verif/build/seeded_results/$1.replays /verif/scripts/selftest.sh /verif/seeded/$1/patch.diff $2 ${3:-quick} ) > $OUT 2>&1
tail -4 $OUT | head -3
