#!/bin/bash
# Sensitivity test: apply a patch to a scratch worktree of /repo (outside /repo and /verif), build the
# simulator against it and run a property's check there. Everything is removed afterwards.
# usage: selftest.sh <patch.diff> <property> [quick|thorough]   (env VERIF_RUNS to limit runs)
# exit status = the check's exit status (1 = the mutation was caught)
set -u
PATCH=$(readlink -f "$1"); PROP=$2; TIER=${3:-quick}
ID=$$
WT=/tmp/vwt-$ID
trap 'git -C /repo worktree remove --force $WT >/dev/null 2>&1; rm -rf $WT $WT-build $WT-out' EXIT
git -C /repo worktree add --detach $WT HEAD >/dev/null 2>&1 || { echo "cannot create worktree"; exit 2; }
git -C $WT apply "$PATCH" || { echo "patch does not apply"; exit 2; }
mkdir -p $WT-build $WT-out
# reuse the simulator library source; separate build dir
VERIF_REPO=$WT VERIF_BUILD=$WT-build VERIF_OUT=$WT-out python3 /verif/scripts/check.py $PROP $TIER
rc=$?
if [ -n "${SELFTEST_KEEP_REPLAYS:-}" ]; then mkdir -p "$SELFTEST_KEEP_REPLAYS"; cp -r $WT-out/replays/. "$SELFTEST_KEEP_REPLAYS"/ 2>/dev/null; fi
echo "selftest: check exit status $rc"
exit $rc
