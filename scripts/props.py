"""Per-property check configuration (budgets, probes, evidence texts)."""

COMPONENTS_REAL = [
    "libpika built from /repo's working tree (schedulers, scheduling loop, coroutines incl. assembly context switch, "
    "synchronisation primitives, senders/receivers, runtime start/stop, resource partitioner)",
    "header-only pika code instantiated in the harness (instrumented identically)",
    "libstdc++, fmt, spdlog, hwloc (real topology of this VM)",
]
COMPONENTS_STUBBED = [
    "kernel scheduler (replaced by the seeded baton scheduler; exactly one simulated thread runs at a time)",
    "pthread mutex/condvar/once/join, C++ static-init guards (implemented inside the simulator)",
    "clock_gettime/gettimeofday/nanosleep/usleep/sleep (virtual clock)",
    "sched_setaffinity/pthread_setaffinity_np/sched_getcpu (no-ops: binding is irrelevant under the baton)",
]
COMMON_ASSUMPTIONS = [
    "sequentially consistent interleavings only (one thread runs at a time); weak-memory behaviours are not explored",
    "preemption granularity = atomic operations, pthread/clock/sleep calls and thread start/exit; plain-memory races between two such points are not exposed",
    "sampling, not enumeration: a clean batch is evidence, not proof",
    "pika compiled by clang-14 -O2 with atomics-only TSan instrumentation (no source change; guard macro PIKA_VERIF_SIM is defined but tested nowhere); "
    "-DMOODYCAMEL_CPP11_THREAD_LOCAL_SUPPORTED is passed so that the queue's thread-exit listener is compiled in as in a gcc build",
    "operator new/delete of the process are replaced by the harness's heap quarantine: blocks of up to 16 KiB released during a run are poisoned and "
    "kept until its end (a write after release or a double release is a violation; memory is not reused within a run)",
]

LEVEL_TEXT = ("Seeded exploration: thousands (quick) to hundreds of thousands (thorough) of simulated executions of the real pika code, each "
              "with its own drawn configuration, generated program, schedule and faults; violations are replayable from a seed and minimised.")

NOT_APPLICABLE = {
    "C15": "worker->PU binding is a pure function of (topology, process mask, binding mode, thread count), computed once single-threaded at "
           "start-up: no schedule, clock or fault can change it, so there is nothing for a simulator to decide (input enumeration would be needed)",
    "C16": "configuration precedence is a pure function of (argv, environment, ini entries); no schedule, time or fault dependence",
    "C18": "type-erasure wrappers: sequential value-semantics equivalence over (program, input); no concurrency, clock or I/O of their own",
}

PROPS = {
    "S00": {"quick_runs": 2000, "thorough_runs": 20000, "seed": 100001, "claimed": False},
    "C01": {
        "quick_runs": 20000, "thorough_runs": 300000, "seed": 1000001,
        "rule": "C01 programs: task forests of 5-200 nodes; per node a submission API (start_detached(schedule|then), execute, "
                "detached pika::thread, register_work, register_thread, transfer_just), priority, stack class, worker hint, yields, "
                "an optional wait for an earlier task (by suspension on an event or by a yield_k spin-wait, which yields with the boost hint), children spawned from inside; roots submitted by main and by 0-2 racing OS "
                "threads; all 8 policies, 1-16 workers, adverse queue knobs."
                " Some tasks return with an undelivered interruption request (their thread objects are recycled).",
        "required_probes": ["waited_for_other_task", "spin_waited_for_other_task", "tasks", "returned_with_interruption_requested"],
        "kf_subs": {"kf_yield_starvation": 8},
    },
    "C17": {
        "quick_runs": 80000, "thorough_runs": 2000000, "seed": 17000001, "chunk": 4096,
        "rule": "C17 programs: 1-4 plain threads x pop_left/pop_right on contiguous_index_queue, push/pop at both ends of the "
                "lock-free deque (tiny node pools so that nodes are recycled), push/pop/steal through the four scheduler queue "
                "back-ends; conservation + drain on every run, sequential order in single-thread runs, linearizability check "
                "(<= 24 operations) of index queue and deque histories against a sequential model."
                " Back-ends also: bursts, a backlog of 900-2200 elements after a partial drain, 17-26 producer threads, two generations of threads on one queue.",
        "required_probes": ["index.concurrent", "index.sequential", "deque.concurrent", "deque.sequential", "backend0.concurrent", "backend2.sequential", "backend.backlog_over_initial_capacity", "backend.more_than_16_producer_threads", "backend.two_thread_generations"],
        "stubbed": ["no pika runtime is started for this property: the containers are driven directly by simulated plain threads"],
    },
    "C02": {
        "quick_runs": 32000, "thorough_runs": 500000, "seed": 2000001,
        "rule": "C02 programs: 1-8 independent waiter/waker pairs over raw agent suspend/resume, condition_variable, semaphore, "
                "latch, event, thread::join, pika::mutex hand-off, sync_wait from an OS thread, and timed waits (condition_variable::wait_for(pred), "
                "try_acquire_for: the waiter is registered while it *yields* with the boost hint instead of suspending), and a raw suspend that is first woken "
                "with restart reason 'abort' (the waiter survives the exception) and then waits again; latch and semaphore pairs "
                "have 0-3 co-waiters that one count_down / release(n) must wake together; the waiter publishes 'registered' "
                "(under the facility's lock where there is one), the waker (task or OS thread) wakes only afterwards; focus "
                "strategy on do_yield/do_resume/set_thread_state/set_active_state/scheduling_loop."
                " A waiter blocked for good (raw suspend / semaphore / condition variable nobody signals) is woken by interrupt_thread.",
        "required_probes": ["mech0", "mech1", "mech5", "mech6", "timed_cv_wait_woken", "timed_sem_wait_woken", "co_waiters", "waiter_survived_abort", "waiter_interrupted"],
    },
    "C10": {
        "quick_runs": 20000, "thorough_runs": 300000, "seed": 10000001,
        "rule": "C10 programs: default pool + 0-2 extra pools (1-3 workers, own policy) created through the resource partitioner; "
                "2-30 submissions (schedule|then, execute, transfer_just, continues_on between pools, bulk, hinted tasks, "
                "std_thread_scheduler) from main, from tasks and from OS threads; every callable records pool, worker and "
                "whether it runs inside the submitting call; hinted normal-priority tasks on static pools check every phase, phases are separated by yields or by suspensions on a semaphore released by another task or an OS thread at a drawn distance.",
        "required_probes": ["continues_on", "bulk", "std_thread", "hinted_phase_on_static_pool", "hinted_phase_after_suspension_on_static_pool", "hinted_task_suspended"],
    },
    "C11": {
        "quick_runs": 20000, "thorough_runs": 300000, "seed": 11000001,
        "rule": "C11 programs: bulk(sender, n, f) on the pool scheduler for n in {0,1,2,w-1,w,w+1,4w+-1,8w+-1,16w,2^k+-1, random <= 5000}, "
                "shape types int/unsigned/long/size_t/long long (short shapes do not compile on the scheduler path), predecessor via transfer_just / schedule+let_value / just+continues_on "
                "(values: an integer and a move-only token), 0-3 throwing indices, hints and priorities, a yielding index."
                " One run in three: bulk on a second pool created through the resource partitioner (1-4 workers, any policy).",
        "required_probes": ["bulk.n0", "bulk.value", "bulk.error", "bulk.type4", "bulk.pred2", "bulk.on_second_pool"],
    },
    "C19": {
        "quick_runs": 16000, "thorough_runs": 250000, "seed": 19000001,
        "rule": "C19 histories: default pool + victim pool (2-5 workers, any policy, elasticity on; a control sub-workload without "
                "elasticity) x suspend/resume of single processing units and of the whole pool issued from tasks of the other pool "
                "and from OS threads, concurrently with hinted and unhinted submissions and yielding tasks; resumes of a processing unit that are "
                "not serialised with the other parties (half of them aimed at a suspend in flight: either order is a legal outcome, the model "
                "tracks the unit as 'unknown' until it is resumed again); refused operations "
                "(no elasticity, pool suspending itself) must report their error and leave the workers running.",
        "required_probes": ["suspend_pu", "resume_pu", "suspend_pool", "resume_pool", "refused.no_elasticity", "refused.self_suspend", "tasks",
                            "race_resume", "resume_overlapped_suspend"],
    },
    "C12": {
        "quick_runs": 16000, "thorough_runs": 250000, "seed": 12000001,
        "rule": "C12 programs: 3-60 canary tasks in waves (so that thread objects and stacks are recycled) over the four stack classes "
                "with drawn sizes (guard pages on/off); each recurses to a drawn fraction of its usable stack filling every frame with a "
                "pattern, keeps integer and floating point locals, task-local data and (one task in three) a non-default floating-point control state (rounding mode in MXCSR and x87 control word, or only the x87 control word: rounding and precision control, with and without pending SSE exception flags) live across 0-5 yields at the deepest point, "
                "and may leave 'dirt' (interruption disabled, an undelivered interruption request, an exit callback) for the next user of its thread object; "
                "one task in four creates a child with thread_stacksize::current, which must run on (and be able to use) a stack of its creator's class."
                " Sizes configured in decimal, hexadecimal or octal notation.",
        "required_probes": ["resumed_on_another_worker", "left_interruption_disabled", "left_interruption_requested", "canary_tasks", "fp_mode_kept_across_yield", "x87_only_mode_kept_across_yield", "child_with_current_stacksize"],
    },
    "C20": {
        "quick_runs": 16000, "thorough_runs": 250000, "seed": 20000001,
        "rule": "C20 programs: all 32 completion modes (handler method x inline request x inline completion x high priority), with "
                "and without the dedicated polling pool, polling size 1 (MPI_Testany) or 2-64 (MPI_Testsome in chunks of 32), 1-24 outstanding self-addressed MPI_Irecv/MPI_Isend pairs (1 B - 4 KiB, "
                "per-message pattern) and MPI_Ibcast through transform_mpi in 1-3 batches, each inside its own enable_polling scope "
                "and followed by pika::wait(); the simulated transport completes requests after drawn delays, out of order and in bursts; in one run "
                "in three it holds every completion back until a whole batch of 12-64 pairs is posted (up to 128 requests outstanding at once)."
                " Later polling sessions may use another completion mode; one run in 25 is a flood (one task on one worker starts 1050-1300 sends in a row).",
        "required_probes": ["batch", "requests", "mpi_pool", "no_mpi_pool", "mode0", "mode8", "mode16", "mode30", "all_requests_outstanding_at_once", "completion_mode_changed_between_sessions", "flood_of_requests_from_one_task"],
        "stubbed": ["the MPI library: libpikasim defines MPI_Init_thread/Isend/Irecv/Ibcast/Test/Testany/Testsome/... as a single-rank "
                    "simulated transport (requests complete after drawn virtual delays, receive buffers are written at completion only); "
                    "the real libmpi is loaded but never initialised"],
    },
    "C13": {
        "quick_runs": 24000, "thorough_runs": 400000, "seed": 13000001,
        "kf_subs": {"kf_shared_priority": 32, "kf_yield_noexcept": 16},
        "rule": "C13 programs: 1-7 threads with bodies {return, yield k, block, spawn+join child, interruptible loop, stop-token "
                "loop} x controls {join, detach, interrupt+join, ~jthread, request_stop+join, double join, self join, move+join} "
                "with drawn delays so that termination and join/interrupt race; all policies except shared-priority (known finding)."
                " A jthread handle is moved / move-assigned / swapped right after construction; an interruption has to wake a thread that blocks for good.",
        "required_probes": ["join.target_already_done", "join.target_running", "interrupted", "stop_observed", "double_join", "self_join", "detach", "jthread.handed_over", "interrupt.woke_blocked_thread"],
    },
    "C14": {
        "quick_runs": 32000, "thorough_runs": 500000, "seed": 14000001,
        "rule": "C14 histories: 2-5 parties (tasks / OS threads) x stop_source copy/move/copy-assign/move-assign (also between sources of one state, also onto itself)/swap/destroy, token checks, "
                "stop_callback construct (before/after stop) and destroy (other thread, inside own callback, inside another "
                "callback), racing request_stop over two stop states; one sub-workload uses plain OS threads only."
                " One run in three is an orphan run: main keeps only tokens, every source is party-local, a state can lose its last source while tokens and callbacks live on.",
        "required_probes": ["request_stop.won", "request_stop.lost", "cb.ran_in_constructor", "cb.destroy_self", "cb.dtor_waited_for_running_callback", "src.move_assign_same_state", "src.self_move_assign", "orphan_run", "src.last_source_of_state_destroyed", "cb.registered_after_stop_and_last_source", "token.checked_after_last_source"],
    },
    "C03": {
        "quick_runs": 60000, "thorough_runs": 1500000, "seed": 3000001, "chunk": 4096,
        "rule": "C03 programs: one of 24 pipeline shapes without scheduler (then, let_value (also with a throwing callable, also with a successor that keeps the reference to the stored value), let_error (also "
                "returning a leaf sender, also with a successor that keeps the reference to the stored error), when_all 2/3 arms and nested, when_all_vector, split with 1-3 consumers, ensure_started (also dropped), "
                "split(ensure_started), ensure_started(split), drop_value, split_tuple, drop_operation_state, require_started, "
                "unique_any_sender, any_sender copies, unpack, when_all over split copies, drop_operation_state after storing predecessors) or 13 shapes on a 1-4 worker runtime "
                "(schedule, continues_on, transfer_just, when_all/split/ensure_started over scheduled work); every leaf draws its channel "
                "(value/error/stopped), its timing (inline in start / later from a completer thread) and payload; callables "
                "throw at random; consumers start from 1-3 threads after drawn delays via connect/start, sync_wait or start_detached.",
        "required_probes": ["pure.shape6", "pure.shape7", "pure.shape9", "pure.shape15", "pure.shape18", "pure.shape20", "sched.shape1", "sched.shape8", "consumed_by_sync_wait", "consumed_by_start_detached", "split.consumers"],
    },
    "C04": {
        "quick_runs": 80000, "thorough_runs": 2000000, "seed": 4000001, "chunk": 4096,
        "rule": "C04 programs: 2-12 read/readwrite requests taken in order from async_rw_mutex<Val> / async_rw_mutex<void>; each "
                "sender is started, dropped unstarted or (reads) copied and started twice on one of 1-4 threads after a drawn delay; some "
                "continuations release their wrapper at once and wait (blocking, inside the continuation) for the next access when it depends on nothing else; "
                "read wrappers are copied 0-2 times; every copy is released by a drawn thread after a drawn delay; the program is cut "
                "into 1-4 waves: a wave's senders are requested only after all accesses of the earlier waves were released; the mutex "
                "object is destroyed first (after the last request) in half of the runs."
                " The mutex object itself is move-constructed or move-assigned (onto a fresh mutex / one with a read / a read-write history) between requests.",
        "required_probes": ["dropped_unstarted", "sender_copied", "mutex_destroyed_first", "void_mutex", "value_mutex", "waves", "released_inside_continuation", "waited_inside_continuation_for_next_access", "mutex_move_constructed", "mutex_move_assigned"],
        "stubbed": ["no pika runtime is started for this property: the header-only mutex is driven by simulated plain threads"],
    },
    "C05": {
        "quick_runs": 12000, "thorough_runs": 150000, "seed": 5000001,
        "rule": "C05 histories: up to 3 incarnations (own worker count/policy, with or without entry function) x submit from main, "
                "from tasks and from OS threads (also racing with wait/suspend), wait, suspend/resume (incl. redundant calls), "
                "finalize from main or a task, stop (also entered before finalize: an OS thread then submits more work and finalizes), "
                "refused misuse calls from tasks; invalid steps are skipped by a reference state model.",
        "required_probes": ["start", "stop", "wait", "suspend", "resume", "misuse_refused", "racing_submitter", "stop_entered_before_finalize"],
    },
    "C06": {
        "quick_runs": 32000, "thorough_runs": 400000, "seed": 6000001,
        "rule": "C06 programs: 2-8 parties x lock/try_lock/try_lock_for/try_lock_until sections (yields, sleeps and migrations "
                "inside), nested recursive locking, re-lock and foreign-unlock misuse, over pika::mutex, timed_mutex, "
                "recursive_mutex (tasks) and both spinlocks (tasks and OS threads); on timed_mutex half of the plain sections aim their unlock "
                "at the deadline of a pending timed lock attempt (-300 .. +1800 ns).",
        "required_probes": ["timed_lock.true", "timed_lock.false", "misuse.relock", "misuse.foreign_unlock", "recursive.nested", "try_lock.false", "unlock_aimed_at_timed_deadline"],
    },
    "C07": {
        "quick_runs": 24000, "thorough_runs": 400000, "seed": 7000001,
        "kf_subs": {"kf_timed_os": 48},
        "rule": "C07 programs: 2-6 parties (tasks / OS threads) x wait, wait(pred), wait_for, wait_until(pred), stop-token waits, "
                "notify_one/notify_all (with or without the user lock held), request_stop over condition_variable and "
                "condition_variable_any with pika::mutex, spinlock and std::mutex.",
        "required_probes": ["timed.notified_before_deadline", "wait_for.timeout", "wait_for.no_timeout"],
    },
    "C09": {
        "quick_runs": 24000, "thorough_runs": 400000, "seed": 9000001,
        "rule": "C09 programs: latch (count 0-8, count_down(n)/arrive_and_wait/wait/try_wait, late waiters), barrier (1-9 "
                "participants incl. more than workers, 1-5 phases - one run in six: 2-3 participants reusing one barrier for 130-300 phases -, arrive+wait(token)/arrive_and_wait/arrive_and_drop, counting "
                "completion functor), event (set/wait), call_once (2-6 callers, first k attempts throw); tasks and OS threads."
                " Barrier waits with busy-wait timeouts shorter and longer than the other arrivals; delegated arrivals (arrive(update) with update 2).",
        "required_probes": ["latch.wait", "latch.arrive_and_wait", "barrier.drop", "barrier.arrive_then_wait", "event.wait", "once.throw", "once.thrower_gave_up", "barrier.more_than_128_phases", "barrier.busy_wait_timeout", "barrier.delegated_arrival"],
    },
    "C08": {
        "quick_runs": 24000, "thorough_runs": 400000, "seed": 8000001,
        "kf_subs": {"kf_timed_os": 48},
        "rule": "C08 programs: 2-6 parties (pika tasks / OS threads) x release(n)/acquire/try_acquire/try_acquire_for/until "
                "on counting_semaphore, hold-sections on binary_semaphore, a sole timed acquirer racing one release, and "
                "sliding_semaphore wait/try_wait/signal (max_difference 1-4, one run in five: INT64_MAX or INT64_MAX-100 with upper limits beyond it)."
                " The sliding window is widened during the run (set_max_difference + signal_all).",
        "required_probes": ["timed_acquire.true", "release_before_deadline", "sliding.huge_window", "sliding.window_widened"],
    },
}
