#!/usr/bin/env python3
"""Regenerate /verif/MANIFEST.json from scripts/props.py (claimed checks) and the fixed not-applicable list."""
import json, os, sys
sys.path.insert(0, os.path.dirname(os.path.abspath(__file__)))
from props import PROPS, NOT_APPLICABLE, LEVEL_TEXT
props = [json.loads(l) for l in open("/verif/properties.jsonl")]
ids = [p["id"] for p in props]
checks = []
for pid in ids:
    if pid not in PROPS or not PROPS[pid].get("claimed", True):
        continue
    P = PROPS[pid]
    checks.append({
        "property_id": pid,
        "quick_cmd": "scripts/check.sh %s quick" % pid,
        "thorough_cmd": "scripts/check.sh %s thorough" % pid,
        "evidence_file": "evidence/%s.json" % pid,
        "replay_cmd_template": "scripts/replay.sh {path}",
        "engine": "pikasim",
        "level_claimed": {
            "category": "exploration",
            "text": LEVEL_TEXT + " " + P.get("level_text", ""),
            "design_ref": "DESIGN.md section 4, " + pid,
        },
        "level_note": ("Trusted base: the simulator (sim/sim.cpp: baton scheduler, interposed pthread/clock/atomics), the per-property "
                      "workload and oracle (harness/wl_%s.cpp), clang-14's TSan instrumentation (atomics only for libpika%s). Explores sequentially "
                      "consistent interleavings at the granularity of %s; sampling, not proof. "
                      "Design, deviations, findings and the sensitivity results (58 independently seeded defects) are in DESIGN.md section 0 and Appendix B.") % (
                          pid.lower(),
                          "; atomics and plain memory accesses for this property's header-only subject" if pid in ("C03", "C04", "C17") else "",
                          "atomic operations, plain memory accesses of the subject and blocking calls" if pid in ("C03", "C04", "C17") else "atomic operations and blocking calls"),
        "technique": "deterministic simulation with fault injection: seeded search over schedules, virtual time and injected faults; "
                     "real pika code under a serialising baton scheduler; inline invariants + history oracles + bounded liveness in a fair quiescence phase",
    })
na = []
for pid in ids:
    if pid in [c["property_id"] for c in checks]:
        continue
    na.append({"property_id": pid, "reason": NOT_APPLICABLE.get(pid, "check not built yet (work in progress)")})
m = {
    "version": 1,
    "setup_cmd": "scripts/build.sh",
    "hooks": {
        "guard": "PIKA_VERIF_SIM",
        "enable": "scripts/build.sh builds /repo's working tree with clang-14, atomics-only TSan instrumentation, -DPIKA_VERIF_SIM and -DMOODYCAMEL_CPP11_THREAD_LOCAL_SUPPORTED (the queue's thread-exit listener, compiled in by default under gcc) into "
                  "/verif/build/pika-sim and links it against /verif/build/libpikasim.so; no source file in /repo tests the guard: all seams are "
                  "compiler/linker level (no source hooks)",
        "baseline_off_cmd": "scripts/baseline_off.sh",
        "source_commits": [],
        "add_only": True,
    },
    "engines": [{
        "name": "pikasim", "path": "sim/",
        "serves_properties": [c["property_id"] for c in checks],
        "kind_free_text": "deterministic simulation: serialising baton scheduler over real threads, virtual clock, interposed "
                          "pthread/clock/sleep/atomics, seeded strategies (walk, pct, conflict, focus, rr), fault injection, scripted replay",
    }],
    "checks": checks,
    "notes": "Genuine defects found are repaired by 'fix:' commits in /repo or listed in /verif/known_findings.json; see DESIGN.md.",
    "not_applicable": na,
}
json.dump(m, open("/verif/MANIFEST.json", "w"), indent=1)
print("checks:", [c["property_id"] for c in checks], "not claimed:", [n["property_id"] for n in na])
