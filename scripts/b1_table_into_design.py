#!/usr/bin/env python3
"""Replace the table of Appendix B.1 in DESIGN.md by one generated from evidence/*.json."""
import glob, json, os
V = os.path.dirname(os.path.dirname(os.path.abspath(__file__)))
rows = ["| Check | runs | runs/h (16 cores) | distinct non-trivial schedules | schedule points | preemptions | stall / tryfail / spurious / clock-jump faults that fired | simulated s | sub-workloads (runs) |",
        "|---|---|---|---|---|---|---|---|---|"]
for f in sorted(glob.glob(V + "/evidence/C*.json")):
    e = json.load(open(f)); c = e["coverage"]; fc = c["fault_counts"]
    rows.append("| %s | %d | %d | %d | %d | %d | %d / %d / %d / %d | %s | %s |" % (
        e["property_id"], c["evaluations"], c["runs_per_hour"], c["distinct_nontrivial"], c["schedule_points"], c["preemptions"],
        fc.get("stall", 0), fc.get("tryfail", 0), fc.get("spurious", 0), fc.get("clockjump", 0), c["simulated_seconds"],
        ", ".join("%s %d" % kv for kv in c["sub_workloads"].items())))
L = open(V + "/DESIGN.md").read().split("\n")
i = next(k for k, l in enumerate(L) if l.startswith("| Check | runs | runs/h"))
j = i
while j < len(L) and L[j].startswith("|"):
    j += 1
open(V + "/DESIGN.md", "w").write("\n".join(L[:i] + rows + L[j:]))
print("B.1: %d rows" % (len(rows) - 2))
