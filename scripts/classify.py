#!/usr/bin/env python3
import json,sys
from collections import Counter
c=Counter(); ex={}
for l in open(sys.argv[1]):
    r=json.loads(l)
    k=(r.get('sub'),r['outcome'],r.get('class'))
    c[k]+=1
    if r['outcome']!='ok': ex.setdefault(k,r)
for k,v in sorted(c.items()): print(k,v)
for k,r in ex.items(): print(k, r['seed'], r['msg'][:900]); print(r.get('program'))
