#!/bin/bash
# Run every claimed property's quick check once (the commands of MANIFEST.json); summary at the end.
cd "$(dirname "$(readlink -f "$0")")/.."
rc=0
for p in $(python3 -c "import json; print(' '.join(c['property_id'] for c in json.load(open('MANIFEST.json'))['checks']))"); do
  /usr/bin/time -f "$p wall %es" scripts/check.sh $p quick > build/quick.$p.log 2>&1
  r=$?
  echo "$p exit=$r $(grep -c '^VIOLATION' build/quick.$p.log) violations; $(grep -a 'wall' build/quick.$p.log | tail -1)"
  [ $r -ne 0 ] && rc=1
done
exit $rc
