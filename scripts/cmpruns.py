#!/usr/bin/env python3
import json,sys
def load(p):
    d={}
    for l in open(p):
        r=json.loads(l); d[r['seed']]=r
    return d
a=load(sys.argv[1]); b=load(sys.argv[2])
key=lambda r:(r.get('hash'),r.get('steps'),r['outcome'],r.get('class'))
bad=[s for s in a if s in b and key(a[s])!=key(b[s])]
print(len(a),len(b),'mismatch',len(bad),sorted(bad)[:10])
from collections import Counter
print(Counter(r['outcome'] for r in a.values()))
for r in list(a.values()):
    if r['outcome']!='ok':
        print(r['seed'],r['class'],r['msg'][:400]); break
import statistics
print('steps median',statistics.median(r.get('steps',0) for r in a.values()),'wall median ms',statistics.median(r['wall_ms'] for r in a.values()))
