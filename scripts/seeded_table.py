#!/usr/bin/env python3
"""Markdown table of seeded/<id>/meta.json (for DESIGN.md Appendix B)."""
import glob, json, os
V = os.path.dirname(os.path.dirname(os.path.abspath(__file__)))
print("| Seeded defect | Change (one site unless noted) | Check | Result on the patched tree (quick) | Strengthening it caused |")
print("|---|---|---|---|---|")
for f in sorted(glob.glob(V + "/seeded/*/meta.json")):
    m = json.load(open(f))
    cls = sorted(set(c.split(":")[0].replace("violation class ", "") for c in m["check"]["violation_classes"]))
    res = m["check"]["result"]
    if cls:
        res += ": " + ", ".join("`%s`" % c for c in cls[:4])
    print("| `%s` | %s | %s | %s | %s |" % (m["id"], m["change"], m["property"], res, m.get("note", "") or "-"))
