#!/bin/bash
# Build libpikasim.so, instrumented libpika (from /repo's working tree) and the harness runner.
# Usage: build.sh [quiet]
set -u
V=${VERIF_ROOT:-$(cd "$(dirname "$0")/.." && pwd)}
B=${VERIF_BUILD:-$V/build}
REPO=${VERIF_REPO:-/repo}
mkdir -p "$B" "$B/tmp" "$B/obj"
exec 9>"$B/.lock"
flock 9
LOG=$B/build.log
: > "$LOG"
SIMFLAGS="-fsanitize=thread -mllvm -tsan-instrument-memory-accesses=0 -mllvm -tsan-instrument-func-entry-exit=0 -mllvm -tsan-instrument-memintrinsics=0 -mllvm -tsan-handle-cxx-exceptions=0"
fail() { echo "BUILD-FAILED: $1 (see $LOG)"; grep -E "error|Error" -A4 "$LOG" | grep -v "^/usr/bin/clang" | cut -c1-300 | head -60; exit 2; }

# 1. simulator
if [ ! -f "$B/libpikasim.so" ] || [ "$V/sim/sim.cpp" -nt "$B/libpikasim.so" ] || [ "$V/sim/sim.h" -nt "$B/libpikasim.so" ] || [ "$V/sim/mpi_stub.cpp" -nt "$B/libpikasim.so" ]; then
  SRCS="$V/sim/sim.cpp"
  [ -f "$V/sim/mpi_stub.cpp" ] && SRCS="$SRCS $V/sim/mpi_stub.cpp"
  g++ -std=c++17 -O2 -g -fPIC -shared -mcx16 -fvisibility=hidden -Wall -DOMPI_SKIP_MPICXX=1 -I/usr/lib/x86_64-linux-gnu/openmpi/include \
      -o "$B/libpikasim.so.tmp" $SRCS -ldl -lmpi >>"$LOG" 2>&1 || fail "libpikasim"
  mv "$B/libpikasim.so.tmp" "$B/libpikasim.so"
fi

# 2. instrumented pika
# The moodycamel queue's thread-exit listener (producer records of exited threads are recycled) is compiled in
# wherever thread_local is supported; its feature test misreads clang (which reports itself as GCC 4.2), so it is
# switched on explicitly: the simulated build has the feature set of the usual gcc build.
PIKAFLAGS="$SIMFLAGS -DPIKA_VERIF_SIM -DMOODYCAMEL_CPP11_THREAD_LOCAL_SUPPORTED -Wno-unused-command-line-argument -g"
if [ -d "$B/pika-sim" ] && [ "$(cat "$B/pika-sim.flags" 2>/dev/null)" != "$PIKAFLAGS" ]; then rm -rf "$B/pika-sim" "$B/harness"; fi
echo "$PIKAFLAGS" > "$B/pika-sim.flags"
if [ ! -f "$B/pika-sim/build.ninja" ]; then
  cmake -G Ninja -S "$REPO" -B "$B/pika-sim" -DCMAKE_CXX_COMPILER=clang++-14 -DCMAKE_BUILD_TYPE=Release \
    -DPIKA_WITH_MALLOC=system -DPIKA_WITH_TESTS=OFF -DPIKA_WITH_EXAMPLES=OFF -DPIKA_WITH_UNITY_BUILD=ON \
    -DPIKA_WITH_MPI=ON -Dfmt_DIR=/usr/lib/x86_64-linux-gnu/cmake/fmt \
    -DCMAKE_CXX_FLAGS="$PIKAFLAGS" \
    -DCMAKE_SHARED_LINKER_FLAGS="-fno-sanitize=thread -L$B -lpikasim" \
    -DCMAKE_EXE_LINKER_FLAGS="-fno-sanitize=thread -L$B -lpikasim" >>"$LOG" 2>&1 || fail "cmake configure"
fi
ninja -C "$B/pika-sim" pika >>"$LOG" 2>&1 || fail "libpika"

# 3. harness (make-style, parallel)
VERIF_BUILD="$B" python3 "$V/scripts/build_harness.py" >>"$LOG" 2>&1 || fail "harness"
[ "${1:-}" = quiet ] || echo "build ok"
exit 0
