#!/usr/bin/env python3
"""Write seeded/<id>/meta.json from the table below plus the recorded results in build/seeded_results/
(selftest output of the property's check on the patched scratch worktree, and my own confirmation of
the agent's demonstration with and without the change)."""
import json, os, re, sys
V = os.path.dirname(os.path.dirname(os.path.abspath(__file__)))
R = V + "/build/seeded_results"
T = {
 "C01-a": ("C01", "scheduling_loop.hpp: for a task that yielded with the boost hint (pending_boost) the state is reset to pending only after the task has been put back into a queue",
           "a task that spin-waits with yield_k (boost yields) and a second worker that dequeues (steals) it while its state still says pending_boost: the thief sees a non-pending state, the task is dropped / runs twice",
           "missed by the first C01 workload (no task ever yielded with the boost hint); caught after tasks were allowed to wait for another task with pika::util::yield_while"),
 "C02-a": ("C02", "set_thread_state.cpp set_active_state: the 'has the thread been re-activated meanwhile' test compares only the tag",
           "a wake-up aimed at a target that is still active (the helper task retries later) whose state_ex changed in between: the retry is dropped and the waiter sleeps forever", ""),
 "C03-a": ("C03", "split.hpp shared state: set_predecessor_done returns without taking the lock when the continuation vector looks empty",
           "a consumer of split() connecting/starting (add_continuation) concurrently with the predecessor's completion, preempted between its check of predecessor_done and the push_back: its continuation is never called",
           "missed with atomics-only instrumentation (the race is on plain loads/stores); caught after wl_c03 was compiled with memory-access instrumentation (plain accesses are schedule points)"),
 "C04-a": ("C04", "async_rw_mutex.hpp add_op_state: the 'queue already processed' sentinel test is hoisted out of the CAS retry loop",
           "an access being started while the previous access is released: the CAS fails because done() swapped in the sentinel, the retry pushes onto a queue nobody will process: that access (and all later ones) is never granted", ""),
 "C05-a": ("C05", "scheduler_base::resume: the sleeping test is moved out of the mutex (resume request recorded without the lock only if the worker is seen sleeping)",
           "resume racing with a worker that is between its own sleeping-store and the wait on its condition variable: the request is not recorded, the notify is lost; the worker sleeps through resume(), or a worker resumes by itself later", ""),
 "C06-a": ("C06", "mutex.cpp lock(): a waiter that was woken with 'signaled' takes the mutex without re-testing owner_id_",
           "unlock() + wake-up of waiter A, and a third task B that locks the free mutex before A runs: A and B both own it", ""),
 "C07-a": ("C07", "condition_variable.hpp condition_variable_any::wait: the user lock is released before the internal mutex is taken",
           "a notifier that takes the user lock and notifies in the window between the waiter's unlock of the user lock and its registration as a waiter: the notification is lost", ""),
 "C08-a": ("C08", "counting_semaphore.cpp signal(): no waiter is notified when the count was already positive before the release",
           "a blocked acquirer while the count is (again) positive - e.g. it was not yet woken for an earlier release, or a timed waiter gave up and left its permit - and a further release: the wake-up is skipped and the blocked acquirer never proceeds although permits are available", ""),
 "C09-a": ("C09", "barrier.cpp arrive(): the second arrival at a tree node stores full_step instead of CAS(half_step -> full_step)",
           ">= 3 participants with a three-way race on one ticket: two arrivals both see half_step and both advance; the completion function runs with one arrival missing, later phases hang", ""),
 "C10-a": ("C10", "set_thread_state.cpp set_active_state: the retry for a still-active target is issued with an empty schedule hint",
           "static policy, >= 2 workers, a hinted task that *suspends* on a primitive and a wake-up that arrives while the task is still active (registered as waiter, not yet switched out): the retry helper re-queues it round robin on another worker",
           "missed by the first C10 workload (hinted tasks only yielded); caught after hinted tasks were made to suspend on a semaphore released by another task / an OS thread at a drawn distance"),
 "C11-a": ("C11", "contiguous_index_queue::pop_left: the emptiness test is hoisted out of the CAS retry loop",
           ">= 2 workers, the owner in pop_left with one chunk left and a thief's pop_right taking it between the owner's load and CAS: the chunk runs twice", ""),
 "C13-a": ("C13", "thread_data::add_thread_exit_callback no longer tests ran_exit_funcs_",
           "a joiner that registers its exit callback after the target ran its exit callbacks but before the scheduling loop stored 'terminated': join() never returns", ""),
 "C14-a": ("C14", "stop_token.cpp request_stop: the prev_ pointer of the new head is not updated while callbacks are dequeued",
           "two or more callbacks registered, one being destroyed (remove_callback) while request_stop runs another: the list is corrupted, a callback is invoked after its destructor returned", ""),
 "C17-a": ("C17", "contiguous_index_queue::pop_right: the emptiness test is hoisted out of the CAS retry loop",
           "two consumers racing for the last element: the loser's retry runs on an empty range and returns an element twice or an index outside the range", ""),
 "C19-a": ("C19", "resume_processing_unit_direct calls scheduler->resume() once instead of on every poll",
           "a resume issued (from another thread) while a suspend of the same processing unit is in flight and the worker is still in pre_sleep: nothing is recorded, the worker goes to sleep, the resumer polls forever",
           "the first C19 workload serialised all suspend/resume calls and would have missed it; resumes that are not serialised with the other parties (half aimed at a suspend in flight) were added, with a three-valued model (running / suspended / unknown)"),
 "C20-a": ("C20", "mpi_polling.cpp poll_multithreaded: the callback lookup after MPI_Testsome drops the chunk offset",
           "more than 32 requests in the polling vector and a completion found beyond the first chunk: an unrelated receive is signalled before its transfer, the completed request's sender never completes",
           "the first C20 workload had at most 48 requests and rarely more than a few outstanding at once; a hold mode (the simulated transport completes nothing until a whole batch of up to 128 requests is posted) and a drawn polling size were added"),
 "C01-c": ("C01", "thread_queue::add_new decrements the staged-task counter of the stealing queue instead of the queue it took the tasks from",
           "stealing enabled, an idle worker stealing *staged* tasks from a busy worker's queue: both counters are wrong for good; low-priority tasks are never fetched, a worker never leaves its loop at shutdown", ""),
 "C02-c": ("C02", "detail::condition_variable::notify_one returns 'queue_.size() > 1' (the woken entry was already popped)",
           "one wake-up operation that has to release two or more waiters through the notify_one loop (latch with >= 2 waiters, release(n >= 2), sliding_semaphore::signal): the last waiter is never resumed",
           "missed by the C02 workload (every pair had exactly one waiter; C08/C09 workloads would see it); caught after latch and semaphore pairs got 0-3 co-waiters"),
 "C03-c": ("C03", "when_all_vector set_value: finish() moved inside 'if (!set_stopped_error_called)'",
           ">= 2 predecessors, one completing with error/stopped and a value completion arriving after it: the counter never reaches zero, no completion signal at all", ""),
 "C04-c": ("C04", "async_rw_mutex::readwrite(): fast path that reuses the current state when nobody else references it, without recording that the last access is now a writer",
           "reads requested, granted and fully released, then readwrite requested (fast path) and held, then a read requested: it joins the writer's state and is granted at once",
           "missed by the C04 workload (all senders were requested up front); caught after the program was cut into waves whose senders are requested only after the earlier accesses were released"),
 "C05-c": ("C05", "resume_processing_unit_direct sends one wake-up request instead of polling until the worker left 'sleeping'",
           "suspend() soon after resume(), before every worker has woken: the not yet woken worker is skipped by the suspend, then wakes into a runtime that is reported suspended and runs tasks", ""),
 "C06-c": ("C06", "mutex::try_lock tests owner_id_ before taking the internal spinlock and not again under it",
           ">= 2 workers, a try_lock whose window between test and internal lock overlaps a complete acquisition by another task: two owners", ""),
 "C07-c": ("C07", "stop_token.cpp add_this_callback: the old head's back pointer is set to the list head instead of the new node",
           ">= 2 stop-token waits on one stop state, an older one leaving first (unregistering corrupts the list), then request_stop: the remaining waiter is never woken", ""),
 "C08-c": ("C08", "sliding_semaphore::signal: fast path for an empty wait queue that assigns the lower limit without max()",
           "signals out of order while nobody waits: the lower limit moves backwards; a later wait that should pass blocks for good", ""),
 "C09-c": ("C09", "latch: notified_ is set after the notify loop, under a freshly re-acquired lock",
           "a wait() that takes the latch's lock between the notifier's unlock and re-lock, with the count already zero: it enqueues and is never notified", ""),
 "C10-c": ("C10", "static_priority_queue_scheduler::set_scheduler_mode: the two mask operations merged with & instead of |",
           "static-priority policy: stealing stays enabled after thread_manager sets the default mode; hinted tasks run on other workers", ""),
 "C11-c": ("C11", "thread_pool_scheduler_bulk set_value: the values are moved into the operation state before the n == 0 early return, which then forwards the moved-from objects",
           "n == 0 and a predecessor value of an owning type sent as rvalue: the receiver gets an empty shell",
           "would have been missed (the payload's move constructor left the source intact); the payload is an owning type now (visibly empty after a move), strengthened on reading the report before the first run"),
 "C12-c": ("C12", "thread_queue::create_thread resolves thread_stacksize::current only on the run_now path",
           "a staged (normal priority) child created with thread_stacksize::current by a task of a non-small class: it gets a small stack",
           "would have been missed (no workload used thread_stacksize::current); children with 'current' were added on reading the report before the first run"),
 "C13-c": ("C13", "thread_data::rebind_base no longer clears requested_interrupt_ (the same line as C12-a, produced independently)",
           "interrupt() aimed at a thread that terminates without another interruption point, its object recycled for a new pika::thread: that thread is interrupted although nobody interrupted it", ""),
 "C14-c": ("C14", "stop_state::remove_callback recognises the signalling thread by OS thread id also for pika tasks",
           "a callback that yields inside request_stop on task A while task B on the same worker destroys the stop_callback: the destructor returns while the callback still runs", ""),
 "C17-c": ("C17", "moodycamel ConcurrentQueue::add_producer: producer->next is not re-linked after a failed CAS",
           ">= 2 threads whose very first push into the same queue collide: the winner's producer sub-queue is unlinked, its elements are never popped", ""),
 "C19-c": ("C19", "suspend_processing_unit_internal: the running -> pre_sleep CAS is done after the pu mutex was released",
           "non-stealing elastic pool, a submission to worker k preempted between its state check and its push while k is suspended: the task sits on the sleeping worker until it is resumed",
           "NOT flagged, and by the statement it is not a violation: C19 allows work queued on a suspended worker to run 'after the worker is resumed', which is what happens (nothing lost, nothing duplicated, all calls return). Kept as a documented boundary of what the property says; an oracle demanding completion without the resume would ask for more than the property states"),
 "C20-c": ("C20", "mpi_polling.cpp compact_vectors: the write cursor also advances over holes",
           ">= 3 requests in the polling vector and two non-adjacent ones completing in one pass: a request handle is registered twice, once with an empty callback", ""),
 "C12-a": ("C12", "thread_data::rebind_base no longer clears requested_interrupt_",
           "an interruption request that is never delivered (interrupt() after the body's last interruption point), recycling of that thread object, a new task on the same queue that reuses it: it starts with interruption_requested() == true",
           "missed by the first C12 workload (its 'dirt' was interruption disabled and exit callbacks only); caught after 'an undelivered interruption request' was added as dirt"),
 "C01-b": ("C01", "deque::pop_left/pop_right proceed while a push at the other end is still being linked (status test '== stable' weakened)",
           "LIFO/ABP policies, >= 2 workers, a yield re-queue (push_right) onto a queue with one task racing with a steal (pop_left) inside the few-instruction window between the anchor CAS and stabilize_right: the pushed task becomes unreachable (dropped) or a worker crashes",
           "also run against C17 (the deque is its subject): caught by both"),
 "C02-b": ("C02", "scheduling_loop.hpp pending_boost branch: the worker skips re-queuing when the state was changed meanwhile",
           "a waiter registered while it *yields* (every timed wait) and a wake-up whose set_thread_state lands between the worker's store of pending_boost and its set_state(pending): the task is in no queue any more",
           "missed by the first C02 workload (all waits untimed: the target was always active or suspended); caught after timed condition-variable and semaphore waits were added as mechanisms"),
 "C03-b": ("C03", "drop_operation_state.hpp set_error: the error is bound by reference instead of copied before the predecessor's operation state is destroyed",
           "a pipeline with drop_operation_state() completing with an error that the predecessor stores (when_all, split with the last reference, ensure_started that finished early): the receiver gets a dangling exception_ptr",
           "the first C03 shapes used drop_operation_state only after then(); shapes with storing predecessors and an error-object ledger (use after destruction, leak) were added: caught (as a crash when the dangling exception is rethrown, or by the ledger)"),
 "C04-b": ("C04", "async_rw_mutex operation_state::continuation builds the access wrapper from a copy of the shared state pointer instead of moving it",
           "an operation state that outlives its released wrapper while a later access of the same mutex is awaited (hand-held operation states, several accesses in one when_all): the next access is never granted", ""),
 "C05-b": ("C05", "runtime::wait(): thread_manager wait and wait_finalize swapped",
           "stop() entered before finalize() on an idle runtime; a non-pika thread then submits work and calls finalize(): shutdown starts while that work runs, children it spawns later land on queues of workers that already left: stop() hangs / returns early",
           "missed by the first C05 histories (finalize always preceded stop on the same thread); caught after 'stop entered before finalize, late work and finalize from an OS thread' was added"),
 "C06-b": ("C06", "mutex::unlock clears owner_id_ before the ownership test",
           "misuse sequence: a non-owner calls unlock() (still reported as an error) while the owner is inside its critical section: the mutex is free, a third task acquires it, the owner's own unlock is rejected", ""),
 "C07-b": ("C07", "condition_variable::wait_until(pred): returns false on timeout without re-evaluating the predicate",
           "a timed predicate wait that times out while the predicate has become true (second waiter not chosen by notify_one, or deadline expiry racing with the notifier): reports false with the predicate true", ""),
 "C08-b": ("C08", "counting_semaphore::wait: 'while (value_ < count)' became 'if'",
           "blocked acquirer, release(1), and a third party that takes the permit (try_acquire / barging acquire) before the woken waiter runs: two acquisitions for one permit, counter negative, a later permit lost", ""),
 "C09-b": ("C09", "call_once: event_.reset() moved from the start of an attempt into the catch block (set(); reset();)",
           "a throwing callable while other callers are already blocked in call_once, and no later new caller on that flag: the woken waiters find the event reset again and sleep forever",
           "missed by the first call_once workload (a thrower always retried and thereby rescued the waiters); caught after callers that give up after their own throwing attempt were added"),
 "C10-b": ("C10", "execution_agent::do_yield records the global instead of the pool-local worker number as last worker",
           "a hinted task that suspends, on a static or static-priority pool that is not the first pool and whose first global worker index is not a multiple of its size: after the suspension it runs on another worker of that pool", ""),
 "C11-b": ("C11", "thread_pool_scheduler_bulk.hpp: tasks_remaining counts only non-empty queues, empty remote queues no longer call finish(), but the local worker always does",
           "0 < n < number of workers and the predecessor completing on a worker whose partition is empty: the receiver is signalled while a chunk is still running", ""),
 "C13-b": ("C13", "thread::thread_function_nullary: run_thread_exit_callbacks() moved inside the try block",
           "a target that ends through thread_interrupted while a joiner is already registered (join before the target terminated): the exit callbacks never run, join() never returns", ""),
 "C14-b": ("C14", "stop_state::lock(): the desired value of the CAS is computed once, before the retry loop",
           ">= 2 threads: one in ~stop_callback/lock(), another changing the state word (request_stop, token/source copy or destruction) between its load and its CAS: the stale word is written back: stop request lost, two winners, wrong stop_possible", ""),
 "C17-b": ("C17", "deque::pop_left/pop_right no longer help a push in flight at the opposite end (same mechanism as C01-b, produced independently)",
           "a push at one end racing with as many pops at the other end as there are elements (typically one): element lost, pop fails on a non-empty quiescent deque, or a later push crashes", ""),
 "C19-b": ("C19", "local_priority_queue_scheduler::wait_or_add_new: the early exit for a non-running worker moved before the conversion of its own staged tasks",
           "a suspend request reaching a worker while staged tasks sit on its queue (suspend racing with submission): the worker can neither convert them nor go to sleep: suspend never returns, the tasks never run (static-priority, or whole-pool suspend)", ""),
 "C20-b": ("C20", "poll_singlethreaded: the global activity count is decremented before the request's callback is invoked",
           "a real dedicated polling pool, completion mode without request_inline, continuation handler with inline completion, and the request being the last outstanding activity: pika::wait() returns while the continuation still runs",
           "missed at first for a harness reason: the simulated MPI world reported one rank, for which pika never creates the polling pool (the probe 'mpi_pool' only reflected the request). The transport now reports two ranks when the pool is requested and the workload asserts that the pool exists: caught"),
}
def grep(path, pat):
    try:
        return [l.rstrip("\n") for l in open(path, errors="replace") if re.search(pat, l)]
    except OSError:
        return []
for name, (prop, change, needs, note) in sorted(T.items()):
    d = V + "/seeded/" + name
    if not os.path.isdir(d):
        continue
    if not change and os.path.exists(d + "/meta.json"):
        continue
    res = R + "/%s.%s.txt" % (name, prop)
    viol = [re.sub(r"replay=\S*/replays/", "replay=", l)[:200] for l in grep(res, r"^VIOLATION")]
    classes = [l[:260] for l in grep(res, r"^violation class")]
    summary = grep(res, r"^%s quick:" % prop)
    status = grep(res, r"selftest: check exit status")
    ident = name.split("-")[0] + (name[-1] if name[-1] in "bc" else "")
    conf = R + "/%s.confirm.txt" % ident
    cl = grep(conf, r"^exit=")
    meta = {
        "id": name, "property": prop,
        "origin": "produced by a fresh sub-agent that saw only the property text and its own scratch worktree of /repo (nothing from /verif)",
        "change": change, "needs_to_manifest": needs,
        "apply": "git -C /repo apply /verif/seeded/%s/patch.diff ; undo: git -C /repo checkout -- ." % name,
        "demonstration": {"files": "demo/ (run.sh builds and runs it against a pika build of the worktree)",
                          "confirmed_by_me": "scripts/confirm_seeded.sh %s: demo with the change %s, without the change %s" % (
                              ident, cl[0] if cl else "?", cl[1] if len(cl) > 1 else "?")},
        "check": {"command": "scripts/selftest.sh seeded/%s/patch.diff %s quick (the property's quick check on a scratch worktree with the patch)" % (name, prop),
                  "result": "caught" if viol else ("missed" if status else "not run"),
                  "summary": summary[0][:200] if summary else "", "violation_classes": classes, "violations": viol},
        "note": note,
    }
    json.dump(meta, open(d + "/meta.json", "w"), indent=1)
    print(name, meta["check"]["result"], meta["demonstration"]["confirmed_by_me"][-60:])
