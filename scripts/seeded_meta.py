#!/usr/bin/env python3
"""Write seeded/<id>/meta.json from the table below plus the recorded results in build/seeded_results/
(selftest output of the property's check on the patched scratch worktree, and my own confirmation of
the agent's demonstration with and without the change)."""
import json, os, re, sys
V = os.path.dirname(os.path.dirname(os.path.abspath(__file__)))
R = V + "/build/seeded_results"
T = {
 "C01-a": ("C01", "scheduling_loop.hpp: for a task that yielded with the boost hint (pending_boost) the state is reset to pending only after the task has been put back into a queue",
           "a task that spin-waits with yield_k (boost yields) and a second worker that dequeues (steals) it while its state still says pending_boost: the thief sees a non-pending state, the task is dropped / runs twice",
           "missed by the first C01 workload (no task ever yielded with the boost hint); caught after tasks were allowed to wait for another task with pika::util::yield_while"),
 "C02-a": ("C02", "set_thread_state.cpp set_active_state: the 'has the thread been re-activated meanwhile' test compares only the tag",
           "a wake-up aimed at a target that is still active (the helper task retries later) whose state_ex changed in between: the retry is dropped and the waiter sleeps forever", ""),
 "C03-a": ("C03", "split.hpp shared state: set_predecessor_done returns without taking the lock when the continuation vector looks empty",
           "a consumer of split() connecting/starting (add_continuation) concurrently with the predecessor's completion, preempted between its check of predecessor_done and the push_back: its continuation is never called",
           "missed with atomics-only instrumentation (the race is on plain loads/stores); caught after wl_c03 was compiled with memory-access instrumentation (plain accesses are schedule points)"),
 "C04-a": ("C04", "async_rw_mutex.hpp add_op_state: the 'queue already processed' sentinel test is hoisted out of the CAS retry loop",
           "an access being started while the previous access is released: the CAS fails because done() swapped in the sentinel, the retry pushes onto a queue nobody will process: that access (and all later ones) is never granted", ""),
 "C05-a": ("C05", "scheduler_base::resume: the sleeping test is moved out of the mutex (resume request recorded without the lock only if the worker is seen sleeping)",
           "resume racing with a worker that is between its own sleeping-store and the wait on its condition variable: the request is not recorded, the notify is lost; the worker sleeps through resume(), or a worker resumes by itself later", ""),
 "C06-a": ("C06", "mutex.cpp lock(): a waiter that was woken with 'signaled' takes the mutex without re-testing owner_id_",
           "unlock() + wake-up of waiter A, and a third task B that locks the free mutex before A runs: A and B both own it", ""),
 "C07-a": ("C07", "condition_variable.hpp condition_variable_any::wait: the user lock is released before the internal mutex is taken",
           "a notifier that takes the user lock and notifies in the window between the waiter's unlock of the user lock and its registration as a waiter: the notification is lost", ""),
 "C08-a": ("C08", "counting_semaphore.cpp signal(): no waiter is notified when the count was already positive before the release",
           "a blocked acquirer while the count is (again) positive - e.g. it was not yet woken for an earlier release, or a timed waiter gave up and left its permit - and a further release: the wake-up is skipped and the blocked acquirer never proceeds although permits are available", ""),
 "C09-a": ("C09", "barrier.cpp arrive(): the second arrival at a tree node stores full_step instead of CAS(half_step -> full_step)",
           ">= 3 participants with a three-way race on one ticket: two arrivals both see half_step and both advance; the completion function runs with one arrival missing, later phases hang", ""),
 "C10-a": ("C10", "set_thread_state.cpp set_active_state: the retry for a still-active target is issued with an empty schedule hint",
           "static policy, >= 2 workers, a hinted task that *suspends* on a primitive and a wake-up that arrives while the task is still active (registered as waiter, not yet switched out): the retry helper re-queues it round robin on another worker",
           "missed by the first C10 workload (hinted tasks only yielded); caught after hinted tasks were made to suspend on a semaphore released by another task / an OS thread at a drawn distance"),
 "C11-a": ("C11", "contiguous_index_queue::pop_left: the emptiness test is hoisted out of the CAS retry loop",
           ">= 2 workers, the owner in pop_left with one chunk left and a thief's pop_right taking it between the owner's load and CAS: the chunk runs twice", ""),
 "C13-a": ("C13", "thread_data::add_thread_exit_callback no longer tests ran_exit_funcs_",
           "a joiner that registers its exit callback after the target ran its exit callbacks but before the scheduling loop stored 'terminated': join() never returns", ""),
 "C14-a": ("C14", "stop_token.cpp request_stop: the prev_ pointer of the new head is not updated while callbacks are dequeued",
           "two or more callbacks registered, one being destroyed (remove_callback) while request_stop runs another: the list is corrupted, a callback is invoked after its destructor returned", ""),
 "C17-a": ("C17", "contiguous_index_queue::pop_right: the emptiness test is hoisted out of the CAS retry loop",
           "two consumers racing for the last element: the loser's retry runs on an empty range and returns an element twice or an index outside the range", ""),
 "C19-a": ("C19", "resume_processing_unit_direct calls scheduler->resume() once instead of on every poll",
           "a resume issued (from another thread) while a suspend of the same processing unit is in flight and the worker is still in pre_sleep: nothing is recorded, the worker goes to sleep, the resumer polls forever",
           "the first C19 workload serialised all suspend/resume calls and would have missed it; resumes that are not serialised with the other parties (half aimed at a suspend in flight) were added, with a three-valued model (running / suspended / unknown)"),
 "C20-a": ("C20", "mpi_polling.cpp poll_multithreaded: the callback lookup after MPI_Testsome drops the chunk offset",
           "more than 32 requests in the polling vector and a completion found beyond the first chunk: an unrelated receive is signalled before its transfer, the completed request's sender never completes",
           "the first C20 workload had at most 48 requests and rarely more than a few outstanding at once; a hold mode (the simulated transport completes nothing until a whole batch of up to 128 requests is posted) and a drawn polling size were added"),
 "C12-a": ("C12", "", "", ""),
}
def grep(path, pat):
    try:
        return [l.rstrip("\n") for l in open(path, errors="replace") if re.search(pat, l)]
    except OSError:
        return []
for name, (prop, change, needs, note) in sorted(T.items()):
    d = V + "/seeded/" + name
    if not os.path.isdir(d):
        continue
    if not change and os.path.exists(d + "/meta.json"):
        continue
    res = R + "/%s.%s.txt" % (name, prop)
    viol = [re.sub(r"replay=\S*/replays/", "replay=", l)[:200] for l in grep(res, r"^VIOLATION")]
    classes = [l[:260] for l in grep(res, r"^violation class")]
    summary = grep(res, r"^%s quick:" % prop)
    status = grep(res, r"selftest: check exit status")
    ident = name.split("-")[0]
    conf = R + "/%s.confirm.txt" % ident
    cl = grep(conf, r"^exit=")
    meta = {
        "id": name, "property": prop,
        "origin": "produced by a fresh sub-agent that saw only the property text and its own scratch worktree of /repo (nothing from /verif)",
        "change": change, "needs_to_manifest": needs,
        "apply": "git -C /repo apply /verif/seeded/%s/patch.diff ; undo: git -C /repo checkout -- ." % name,
        "demonstration": {"files": "demo/ (run.sh builds and runs it against a pika build of the worktree)",
                          "confirmed_by_me": "scripts/confirm_seeded.sh %s: demo with the change %s, without the change %s" % (
                              ident, cl[0] if cl else "?", cl[1] if len(cl) > 1 else "?")},
        "check": {"command": "scripts/selftest.sh seeded/%s/patch.diff %s quick (the property's quick check on a scratch worktree with the patch)" % (name, prop),
                  "result": "caught" if viol else ("missed" if status else "not run"),
                  "summary": summary[0][:200] if summary else "", "violation_classes": classes, "violations": viol},
        "note": note,
    }
    json.dump(meta, open(d + "/meta.json", "w"), indent=1)
    print(name, meta["check"]["result"], meta["demonstration"]["confirmed_by_me"][-60:])
