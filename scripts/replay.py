#!/usr/bin/env python3
"""Replay a violation file written by check.py in a fresh process (twice) and report.
usage: replay.py <replay.json> [--trace]
exit 1 if the recorded violation class reproduces (identically both times), 0 if the run is clean,
2 if the two replays differ or the build fails."""
import json
import os
import sys
sys.path.insert(0, "/verif/scripts")
import check  # noqa: E402


def main():
    path = sys.argv[1]
    rp = json.load(open(path))
    prop, tier = rp["property"], rp.get("tier", "quick")
    os.makedirs(check.TMP, exist_ok=True)
    check.build()
    a = check.run_replay(prop, tier, rp)
    b = check.run_replay(prop, tier, rp)
    cls = check.vclass(prop, a)
    print("replay of %s (mode %s, seed %d, %d program ops, %d scripted decisions)" % (
        path, rp.get("mode", "seed"), rp["seed"], len(rp.get("program") or []), len(rp.get("script") or [])))
    print("run 1: outcome=%s class=%s hash=%s steps=%s" % (a.get("outcome"), a.get("class"), a.get("hash"), a.get("steps")))
    print("run 2: outcome=%s class=%s hash=%s steps=%s" % (b.get("outcome"), b.get("class"), b.get("hash"), b.get("steps")))
    if check.key_of(a) != check.key_of(b):
        print("INFRA: the two replays differ")
        sys.exit(2)
    if cls is None:
        print("clean: the property held in this execution")
        sys.exit(0)
    print("violation class: %s" % cls)
    print("message: %s" % a.get("msg"))
    if rp.get("program") is not None:
        print("program: %s" % json.dumps(rp["program"]))
    if rp.get("script") is not None:
        names = {0: "switch-to", 1: "spurious-wake", 2: "trylock-fails", 3: "clock-jump", 4: "notify-picks", 5: "stall"}
        print("forced decisions (thread, its decision counter -> action):")
        for d in rp["script"][:200]:
            print("  T%d #%d: %s %d" % (d[0], d[2], names.get(d[1], str(d[1])), d[3]))
    print("VIOLATION property=%s replay=%s" % (prop, path))
    sys.exit(1)


if __name__ == "__main__":
    main()
