#!/usr/bin/env python3
"""Replay a violation file written by check.py in a fresh process (twice) and report.
usage: replay.py <replay.json> [--trace]
exit 1 if the recorded violation class reproduces (identically both times), 0 if the run is clean,
2 if the two replays differ or the build fails."""
import json
import os
import sys
sys.path.insert(0, os.path.dirname(os.path.abspath(__file__)))
import check  # noqa: E402


def show_trace(path):
    """Print the last schedule points of the failing run with function names (addr2line)."""
    import subprocess
    try:
        lines = open(path).read().splitlines()
    except FileNotFoundError:
        print("(no trace written)")
        return
    maps = []
    for l in lines:
        if l.startswith("MAP "):
            f = l[4:].split()
            lo, hi = [int(x, 16) for x in f[0].split("-")]
            off = int(f[2], 16)
            maps.append((lo, hi, off, f[-1]))
    pts = [l for l in lines if not l.startswith("MAP ")]
    by_mod = {}
    for l in pts:
        pc = int(l.split("pc=")[1], 16) if "pc=" in l and "(nil)" not in l.split("pc=")[1] else 0
        for (lo, hi, off, mod) in maps:
            if lo <= pc < hi:
                by_mod.setdefault(mod, set()).add(pc - lo + off)
    names = {}
    for mod, addrs in by_mod.items():
        al = sorted(addrs)
        out = subprocess.run(["addr2line", "-f", "-C", "-e", mod] + [hex(a) for a in al], capture_output=True, text=True).stdout.splitlines()
        for i, a in enumerate(al):
            fn = out[2 * i] if 2 * i < len(out) else "?"
            loc = out[2 * i + 1] if 2 * i + 1 < len(out) else ""
            names[(mod, a)] = "%s (%s)" % (fn[:90], loc.split("/")[-1])
    print("last schedule points before the violation (step, thread, kind, address, function):")
    for l in pts[-int(os.environ.get("REPLAY_TRACE_N", "120")):]:
        pc = int(l.split("pc=")[1], 16) if "pc=" in l and "(nil)" not in l.split("pc=")[1] else 0
        where = ""
        for (lo, hi, off, mod) in maps:
            if lo <= pc < hi:
                where = names.get((mod, pc - lo + off), "")
        print("  " + l.split(" pc=")[0] + "  " + where)


def main():
    path = sys.argv[1]
    rp = json.load(open(path))
    prop, tier = rp["property"], rp.get("tier", "quick")
    os.makedirs(check.TMP, exist_ok=True)
    check.build()
    trace = "--trace" in sys.argv[2:]
    a = check.run_replay(prop, tier, rp)
    b = check.run_replay(prop, tier, rp, trace_path=(check.TMP + "/trace.%d.txt" % os.getpid()) if trace else None)
    cls = check.vclass(prop, a)
    print("replay of %s (mode %s, seed %d, %d program ops, %d scripted decisions)" % (
        path, rp.get("mode", "seed"), rp["seed"], len(rp.get("program") or []), len(rp.get("script") or [])))
    print("run 1: outcome=%s class=%s hash=%s steps=%s" % (a.get("outcome"), a.get("class"), a.get("hash"), a.get("steps")))
    print("run 2: outcome=%s class=%s hash=%s steps=%s" % (b.get("outcome"), b.get("class"), b.get("hash"), b.get("steps")))
    if check.key_of(a) != check.key_of(b):
        print("INFRA: the two replays differ")
        sys.exit(2)
    if cls is None:
        print("clean: the property held in this execution")
        sys.exit(0)
    print("violation class: %s" % cls)
    print("message: %s" % a.get("msg"))
    if rp.get("program") is not None:
        print("program: %s" % json.dumps(rp["program"]))
    if rp.get("script") is not None:
        names = {0: "switch-to", 1: "spurious-wake", 2: "trylock-fails", 3: "clock-jump", 4: "notify-picks", 5: "stall"}
        print("forced decisions (thread, its decision counter -> action):")
        for d in rp["script"][:200]:
            print("  T%d #%d: %s %d" % (d[0], d[2], names.get(d[1], str(d[1])), d[3]))
    if trace:
        show_trace(check.TMP + "/trace.%d.txt" % os.getpid())
    print("VIOLATION property=%s replay=%s" % (prop, path))
    sys.exit(1)


if __name__ == "__main__":
    main()
