#!/usr/bin/env python3
"""Run one property's check: build, seeded batch of simulated runs, determinism gate, violation
gating + minimisation, known-finding matching, evidence file.

usage: check.py <property> quick|thorough
exit 0: held on everything explored (known findings are printed as KNOWN-FINDING lines)
exit 1: VIOLATION property=<id> replay=<path>
exit 2: infrastructure problem (build failure, determinism gate, required probe at zero)
"""
import json
import os
import subprocess
import sys
import time
from collections import Counter, defaultdict

V = os.environ.get("VERIF_ROOT", os.path.dirname(os.path.dirname(os.path.abspath(__file__))))
B = os.environ.get("VERIF_BUILD", V + "/build")
OUT = os.environ.get("VERIF_OUT", V)
RUNNER = B + "/harness/runner"
TMP = B + "/tmp"
sys.path.insert(0, V + "/scripts")
from props import PROPS, COMPONENTS_REAL, COMPONENTS_STUBBED, COMMON_ASSUMPTIONS  # noqa: E402

STRATEGY_NAMES = {0: "walk", 1: "pct", 2: "conflict", 3: "focus", 4: "rr", 5: "script"}
POLICY_NAMES = ["local", "local-priority-fifo", "local-priority-lifo", "static", "static-priority",
                "abp-priority-fifo", "abp-priority-lifo", "shared-priority"]


def log(*a):
    print(*a, flush=True)


def build():
    r = subprocess.run([V + "/scripts/build.sh", "quiet"], stdout=subprocess.PIPE, stderr=subprocess.STDOUT, text=True)
    if r.returncode != 0:
        log(r.stdout[-4000:])
        log("INFRA: build failed")
        sys.exit(2)


def run_batch(prop, tier, seed_start, count, jobs, out, extra=(), wall_cap=None):
    cmd = [RUNNER, "--prop", prop, "--tier", tier, "--seed-start", str(seed_start), "--count", str(count),
           "--jobs", str(jobs), "--out", out, "--tmpdir", TMP]
    if wall_cap:
        cmd += ["--wall-cap", str(wall_cap)]
    cmd += list(extra)
    subprocess.run(cmd, check=False)
    res = []
    try:
        with open(out) as f:
            for line in f:
                line = line.strip()
                if not line:
                    continue
                try:
                    res.append(json.loads(line))
                except json.JSONDecodeError:
                    res.append({"seed": -1, "outcome": "infra", "class": "infra", "msg": "bad result line: " + line[:200]})
    except FileNotFoundError:
        pass
    return res


def write_replay_txt(path, rp):
    with open(path, "w") as f:
        f.write("seed %d\n" % rp["seed"])
        if rp.get("sub"):
            f.write("sub %s\n" % rp["sub"])
        for k, v in (rp.get("params") or {}).items():
            if k in ("emit_program",):
                continue
            f.write("param %s %d\n" % (k, v))
        if rp.get("program") is not None:
            f.write("program\n")
            for op in rp["program"]:
                f.write("op " + " ".join(str(x) for x in op) + "\n")
        if rp.get("script") is not None:
            f.write("script\n")
            for d in rp["script"]:
                f.write("dec %d %d %d %d\n" % tuple(d))


_replay_counter = [0]


def run_replay(prop, tier, rp, record=False, wall_cap=30, trace_path=None):
    """Run one replay description (dict) in a fresh process; returns the result record."""
    _replay_counter[0] += 1
    base = "%s/rp.%d.%d" % (TMP, os.getpid(), _replay_counter[0])
    out = base + ".jsonl"
    if os.path.exists(out):
        os.unlink(out)
    if rp.get("mode", "seed") == "seed":
        extra = ["--sub", rp["sub"]] if rp.get("sub") else []
        if record:
            extra.append("--record")
        if trace_path:
            extra += ["--trace", trace_path]
        res = run_batch(prop, tier, rp["seed"], 1, 1, out, extra, wall_cap)
    else:
        txt = base + ".txt"
        write_replay_txt(txt, rp)
        cmd = [RUNNER, "--prop", prop, "--tier", tier, "--replay-txt", txt, "--out", out, "--wall-cap", str(wall_cap),
               "--tmpdir", TMP]
        if record:
            cmd.append("--record")
        if trace_path:
            cmd += ["--trace", trace_path]
        subprocess.run(cmd, check=False)
        res = []
        try:
            with open(out) as f:
                for line in f:
                    if line.strip():
                        res.append(json.loads(line))
        except (FileNotFoundError, json.JSONDecodeError):
            pass
        os.unlink(txt)
    if os.path.exists(out):
        os.unlink(out)
    return res[0] if res else {"outcome": "infra", "class": "infra", "msg": "no result"}


def vclass(prop, r):
    """Violation class of a result record (None if the run was clean)."""
    o = r.get("outcome")
    if o == "ok":
        return None
    # a violation that occurred in a run with injected spurious condition-variable wake-ups (F2) is
    # reported in a class of its own
    sfx = ".under_spurious_wakeup" if r.get("faults", {}).get("spurious", 0) > 0 else ""
    if o == "violation":
        return (r.get("class") or (prop + ".violation")) + sfx
    if o in ("deadlock", "budget"):
        return "%s.liveness.%s%s" % (prop, r.get("sub", "main"), sfx)
    if o == "crash":
        return "%s.crash%s" % (prop, sfx)
    if o == "wall":
        return "%s.wall" % prop
    return "infra"


def key_of(r):
    return (r.get("outcome"), r.get("class"), r.get("hash"), r.get("steps"))


def ddmin(items, test, max_tests=120, deadline=None):
    """Classic ddmin: smallest sublist of items for which test(sublist) is True."""
    n = 2
    tests = 0
    while len(items) >= 2:
        chunk = max(1, len(items) // n)
        subsets = [items[i:i + chunk] for i in range(0, len(items), chunk)]
        reduced = False
        for i in range(len(subsets)):
            if tests >= max_tests or (deadline and time.time() > deadline):
                return items
            complement = [x for j, s in enumerate(subsets) if j != i for x in s]
            tests += 1
            if test(complement):
                items = complement
                n = max(n - 1, 2)
                reduced = True
                break
        if not reduced:
            if n >= len(items):
                break
            n = min(len(items), n * 2)
    if len(items) == 1 and tests < max_tests:
        if test([]):
            return []
    return items


def minimise(prop, tier, r, cls):
    """Returns a replay dict (mode seed/program/script) that reproduces class `cls`."""
    base = {"property": prop, "class": cls, "seed": r["seed"], "sub": r.get("sub", ""), "tier": tier,
            "message": r.get("msg", ""), "mode": "seed"}
    deadline = time.time() + 120
    best = dict(base)
    prog = r.get("program")
    params = r.get("params")
    if prog is None or params is None:
        return best
    cand = dict(base, mode="program", params=params, program=prog)
    rr = run_replay(prop, tier, cand)
    if vclass(prop, rr) != cls:
        return best
    best = cand

    def test_prog(sub):
        c = dict(best, program=sub)
        return vclass(prop, run_replay(prop, tier, c)) == cls
    small = ddmin(list(prog), test_prog, deadline=deadline)
    best = dict(best, program=small)
    # schedule: record the decisions of the (program-minimised) run, then drop what is not needed
    rec = run_replay(prop, tier, best, record=True)
    if vclass(prop, rec) == cls and rec.get("record") is not None and len(rec["record"]) < 400000:
        cand = dict(best, mode="script", script=rec["record"])
        rr = run_replay(prop, tier, cand)
        if vclass(prop, rr) == cls:
            def test_script(sub):
                c = dict(cand, script=sub)
                return vclass(prop, run_replay(prop, tier, c)) == cls
            small_s = ddmin(list(rec["record"]), test_script, max_tests=160, deadline=deadline + 60)
            best = dict(cand, script=small_s)
    return best


def gate_replay(prop, tier, rp, cls):
    """A replay description must reproduce the same class with identical hashes, twice."""
    a = run_replay(prop, tier, rp)
    b = run_replay(prop, tier, rp)
    return vclass(prop, a) == cls and key_of(a) == key_of(b), a


def load_known():
    try:
        with open(V + "/known_findings.json") as f:
            return json.load(f)
    except FileNotFoundError:
        return {"findings": [], "fixed": []}


def match_known(known, prop, sub, cls):
    for k in known.get("findings", []):
        if k["property"] != prop:
            continue
        if k.get("sub") and k["sub"] != sub:
            continue
        if k.get("class") and k["class"] != cls:
            continue
        return k
    return None


def main():
    if len(sys.argv) < 3:
        print(__doc__)
        sys.exit(2)
    prop, tier = sys.argv[1], sys.argv[2]
    if prop not in PROPS:
        log("INFRA: unknown property", prop)
        sys.exit(2)
    P = PROPS[prop]
    t_start = time.time()
    os.makedirs(TMP, exist_ok=True)
    os.makedirs(OUT + "/evidence", exist_ok=True)
    os.makedirs(OUT + "/replays", exist_ok=True)
    build()
    seed0 = int(os.environ.get("VERIF_SEED", P.get("seed", 1000003)))
    jobs = int(os.environ.get("VERIF_JOBS", "16"))
    count = P["quick_runs"] if tier == "quick" else P["thorough_runs"]
    if os.environ.get("VERIF_RUNS"):
        count = int(os.environ["VERIF_RUNS"])
    time_budget = P.get("quick_time", 150) if tier == "quick" else P.get("thorough_time", 1100)
    if os.environ.get("VERIF_TIME"):
        time_budget = int(os.environ["VERIF_TIME"])
    wall_cap = P.get("wall_cap", 30)

    results = []
    chunk = max(jobs * 8, min(count, P.get("chunk", 4096)))
    done = 0
    t_runs = time.time()
    known_pre = load_known()
    while done < count:
        n = min(chunk, count - done)
        out = "%s/batch.%d.jsonl" % (TMP, os.getpid())
        part = run_batch(prop, tier, seed0 + done, n, jobs, out, (), wall_cap)
        # the per-run wall-clock cap is a guard of the driver, not part of the simulation: a run that hit
        # it (machine overloaded) is repeated alone with a generous cap before it counts as anything
        for i, r in enumerate(part):
            if r.get("outcome") == "wall":
                o2 = "%s/rewall.%d.jsonl" % (TMP, os.getpid())
                again = run_batch(prop, tier, r["seed"], 1, 1, o2, (), wall_cap * 8)
                if os.path.exists(o2):
                    os.unlink(o2)
                if again:
                    log("note: seed %d hit the %d s wall-clock cap, repeated alone: %s" % (r["seed"], wall_cap, again[0].get("outcome")))
                    part[i] = again[0]
        results += part
        if os.path.exists(out):
            os.unlink(out)
        done += n
        if time.time() - t_runs > time_budget:
            break
        # stop early once a (not known) violation has been seen: the rest of the budget is better
        # spent on minimising it
        bad = [r for r in part if vclass(prop, r) not in (None, "infra")
               and not match_known(known_pre, prop, r.get("sub", ""), vclass(prop, r))]
        if bad:
            break
    run_wall = time.time() - t_runs
    # known-finding sub-workloads: small dedicated seed budget each (never part of the main mix)
    for sub, n in P.get("kf_subs", {}).items():
        out = "%s/batch.%d.jsonl" % (TMP, os.getpid())
        results += run_batch(prop, tier, seed0, n if tier == "quick" else n * 4, jobs, out, ["--sub", sub], wall_cap)
        if os.path.exists(out):
            os.unlink(out)
    if not results:
        log("INFRA: no results")
        sys.exit(2)

    # ---- determinism gate: a sample of seeds again, other process, other parallelism
    gate_n = P.get("gate_quick", 32) if tier == "quick" else P.get("gate_thorough", 256)
    kf_names = set(P.get("kf_subs", {}).keys())
    by_seed = {r["seed"]: r for r in results if r.get("sub") not in kf_names}
    seeds_sorted = sorted(by_seed)
    step = max(1, len(seeds_sorted) // gate_n)
    sample = seeds_sorted[::step][:gate_n]
    gate_bad = []
    gate_checked = 0
    # contiguous sub-ranges keep the runner invocation simple: re-run each sampled seed singly in groups
    out = "%s/gate.%d.jsonl" % (TMP, os.getpid())
    procs = []
    for s in sample:
        o = "%s.%d" % (out, s)
        procs.append((s, o, subprocess.Popen([RUNNER, "--prop", prop, "--tier", tier, "--seed-start", str(s),
                                              "--count", "1", "--jobs", "1", "--out", o, "--wall-cap", str(wall_cap),
                                              "--tmpdir", TMP])))
        if len(procs) >= 5:
            for (s2, o2, p2) in procs:
                p2.wait()
            procs_done = procs
            procs = []
            for (s2, o2, p2) in procs_done:
                try:
                    r2 = json.loads(open(o2).read().strip().splitlines()[0])
                    os.unlink(o2)
                except Exception:
                    r2 = {"outcome": "infra"}
                gate_checked += 1
                if key_of(r2) != key_of(by_seed[s2]):
                    gate_bad.append(s2)
    for (s2, o2, p2) in procs:
        p2.wait()
        try:
            r2 = json.loads(open(o2).read().strip().splitlines()[0])
            os.unlink(o2)
        except Exception:
            r2 = {"outcome": "infra"}
        gate_checked += 1
        if key_of(r2) != key_of(by_seed[s2]):
            gate_bad.append(s2)
    if gate_bad:
        log("INFRA: determinism gate failed for seeds", gate_bad[:10])
        sys.exit(2)

    # ---- violations
    known = load_known()
    by_class = defaultdict(list)
    infra = []
    for r in results:
        c = vclass(prop, r)
        if c is None:
            continue
        if c == "infra":
            infra.append(r)
            continue
        by_class[(r.get("sub", ""), c)].append(r)
    if infra:
        log("INFRA: %d runs reported infrastructure errors: %s" % (len(infra), infra[0].get("msg", "")[:300]))
        sys.exit(2)

    violations = []
    known_hits = []
    for (sub, cls), rs in sorted(by_class.items()):
        rs.sort(key=lambda r: (r.get("steps", 1 << 60), r["seed"]))
        r = rs[0]
        k = match_known(known, prop, sub, cls)
        # gate: same seed twice in fresh processes
        rp_seed = {"property": prop, "class": cls, "seed": r["seed"], "sub": sub, "tier": tier, "mode": "seed"}
        ok, a = gate_replay(prop, tier, rp_seed, cls)
        if not ok:
            log("INFRA: violation class %s (seed %d) does not reproduce from its seed: %s vs %s" %
                (cls, r["seed"], key_of(r), key_of(a)))
            sys.exit(2)
        if k:
            known_hits.append((k, cls, len(rs), r))
            continue
        # full record (with program) for minimisation
        full = run_replay(prop, tier, dict(rp_seed), record=False)
        best = minimise(prop, tier, full if full.get("program") is not None else r, cls)
        ok, a = gate_replay(prop, tier, best, cls)
        if not ok:
            best = dict(rp_seed, message=r.get("msg", ""))
            ok, a = gate_replay(prop, tier, best, cls)
            if not ok:
                log("INFRA: minimised replay of %s does not reproduce" % cls)
                sys.exit(2)
        best["message"] = a.get("msg", r.get("msg", ""))
        best["expect"] = {"outcome": a.get("outcome"), "class": a.get("class"), "hash": a.get("hash"),
                          "steps": a.get("steps")}
        best["count_in_batch"] = len(rs)
        path = "%s/replays/%s-%s-%d.json" % (OUT, prop, cls.replace("/", "_"), r["seed"])
        with open(path, "w") as f:
            json.dump(best, f, indent=1)
        violations.append((cls, path, best))

    # ---- evidence
    ok_runs = [r for r in results if "steps" in r]
    hashes_nontrivial = set()
    hashes_focus = set()
    fault_counts = Counter()
    strategies = Counter()
    policies = Counter()
    workers = Counter()
    subs = Counter()
    probes_total = Counter()
    probes_runs = Counter()
    sim_ns = 0
    steps = 0
    switches = 0
    preempt = 0
    auto_q = 0
    for r in ok_runs:
        f = r.get("faults", {})
        nf = sum(f.values())
        if r.get("preempt", 0) + nf >= 1 and r.get("threads", 1) >= 2:
            hashes_nontrivial.add(r["hash"])
        if r.get("focus_preempt", 0) >= 1:
            hashes_focus.add(r["hash"])
        for k, v in f.items():
            fault_counts[k] += v
        fault_counts["preemption"] += r.get("preempt", 0)
        p = r.get("params", {})
        strategies[STRATEGY_NAMES.get(p.get("sim.strategy"), "?")] += 1
        if "rt.policy" in p:
            policies[POLICY_NAMES[p["rt.policy"] & 7]] += 1
            workers[str(p.get("rt.workers"))] += 1
        subs[r.get("sub", "")] += 1
        for k, v in r.get("probes", {}).items():
            probes_total[k] += v
            if v:
                probes_runs[k] += 1
        sim_ns += r.get("vtime", 0)
        steps += r.get("steps", 0)
        switches += r.get("switches", 0)
        preempt += r.get("preempt", 0)
        auto_q += r.get("auto_quiesced", 0)
    samples = []
    for r in results:
        if r.get("program") is not None and r.get("outcome") == "ok" and len(samples) < 3:
            samples.append({"seed": r["seed"], "sub": r.get("sub"), "params": r.get("params"),
                            "program": r["program"][:60], "program_ops": len(r["program"]),
                            "outcome": r["outcome"], "steps": r.get("steps"), "switches": r.get("switches"),
                            "hash": r.get("hash"), "probes": r.get("probes"), "notes": r.get("notes")})
    if not samples:
        r = results[0]
        samples.append({k: r.get(k) for k in ("seed", "sub", "params", "outcome", "steps", "switches", "hash", "probes")})
    missing_probes = [p for p in P.get("required_probes", []) if probes_total.get(p, 0) == 0]
    wall = time.time() - t_start
    ev = {
        "property_id": prop,
        "tier": tier,
        "seed": seed0,
        "level": "exploration",
        "coverage": {
            "evaluations": len(results),
            "distinct_nontrivial": len(hashes_nontrivial),
            "rule": "one evaluation = one simulated run (seed -> configuration, generated program, schedule, faults) of the "
                    "real pika code under the serialising scheduler; a run is non-trivial if at least one preemption at a "
                    "non-blocking point (which requires a second runnable thread) or one injected fault occurred; distinct = "
                    "distinct event hash (FNV-1a over every hand-off (step, from, to, point kind), every fault and every "
                    "workload ledger event). " + P.get("rule", ""),
            "samples": samples,
            "seeds": [seed0, seed0 + len(results) - 1],
            "runs_per_hour": int(len(results) / max(run_wall, 1e-6) * 3600),
            "simulated_seconds": round(sim_ns / 1e9, 3),
            "schedule_points": steps,
            "context_switches": switches,
            "preemptions": preempt,
            "distinct_hashes_with_focus_preemption": len(hashes_focus),
            "fault_counts": dict(fault_counts),
            "strategies": dict(strategies),
            "sub_workloads": dict(subs),
            "scheduling_policies": dict(policies),
            "worker_counts": dict(workers),
            "probes_total": dict(probes_total),
            "probes_runs_nonzero": dict(probes_runs),
            "runs_auto_quiesced": auto_q,
            "determinism_gate": {"seeds_rerun": gate_checked, "mismatches": 0,
                                 "how": "each sampled seed re-run in a fresh single-worker process; (outcome, class, event hash, step count) compared"},
            "components_real": COMPONENTS_REAL + P.get("real", []),
            "components_stubbed": COMPONENTS_STUBBED + P.get("stubbed", []),
            "known_findings_reproduced": [k["what"] for (k, _, _, _) in known_hits],
            "violation_classes": [c for (c, _, _) in violations],
        },
        "assumptions": COMMON_ASSUMPTIONS + P.get("assumptions", []),
        "wall_s": round(wall, 2),
        "violations": len(violations),
    }
    with open("%s/evidence/%s.json" % (OUT, prop), "w") as f:
        json.dump(ev, f, indent=1)

    log("%s %s: %d runs in %.1fs (%.0f runs/h), %d distinct non-trivial interleavings, faults %s" %
        (prop, tier, len(results), run_wall, len(results) / max(run_wall, 1e-6) * 3600, len(hashes_nontrivial),
         dict(fault_counts)))
    # one line per listed finding (a finding may show in several violation classes)
    by_finding = {}
    for (k, cls, n, r) in known_hits:
        by_finding.setdefault(k["sub"], (k, []))[1].append((cls, n, r["seed"]))
    for sub, (k, hits) in sorted(by_finding.items()):
        log("KNOWN-FINDING: property=%s %s (sub-workload %s; %s)" % (prop, k["what"], sub,
            "; ".join("class %s in %d runs, e.g. seed %d" % h for h in hits)))
    if violations:
        for (cls, path, best) in violations:
            log("violation class %s: %s" % (cls, best.get("message", "")[:500]))
            log("VIOLATION property=%s replay=%s" % (prop, path))
        sys.exit(1)
    if missing_probes and tier == "quick" and not os.environ.get("VERIF_RUNS"):
        log("INFRA: required probes never fired: %s" % missing_probes)
        sys.exit(2)
    sys.exit(0)


if __name__ == "__main__":
    main()
