#!/bin/bash
# usage: take_seeded.sh <agent-dir-id e.g. C01c> <seeded-name e.g. C01-c> <property>
# copies patch + demo from /tmp/mut/<id> into /verif/seeded/<name>/ and queues the selftest + confirmation
set -e
ID=$1; NAME=$2; PROP=$3
d=/verif/seeded/$NAME; mkdir -p $d
git -C /tmp/mut/$ID diff -- libs cmake CMakeLists.txt > $d/patch.diff.fresh || true
if [ -s /tmp/mut/$ID/patch.diff ]; then cp /tmp/mut/$ID/patch.diff $d/patch.diff; else mv $d/patch.diff.fresh $d/patch.diff; fi
rm -f $d/patch.diff.fresh
rm -rf $d/demo; cp -r /tmp/mut/$ID/demo $d/demo; rm -rf $d/demo/_b* $d/demo/build $d/demo/*.log
(cd /repo && git apply --check $d/patch.diff) && echo "$NAME applies on /repo HEAD"
echo "$NAME $PROP $ID" >> /verif/build/seeded_todo.txt
