// pikasim — deterministic serialising scheduler, virtual clock and fault injector.
// Public interface used by the harness. See /verif/DESIGN.md §2.
#pragma once
#include <stddef.h>
#include <stdint.h>

#ifdef __cplusplus
extern "C" {
#endif

enum sim_strategy {
    SIM_WALK = 0,
    SIM_PCT = 1,
    SIM_CONFLICT = 2,
    SIM_FOCUS = 3,
    SIM_RR = 4,
    SIM_SCRIPT = 5,
};

// decision / fault kinds (also used in replay scripts)
enum sim_dkind {
    SIM_D_SWITCH = 0,      // at point (tid,n): hand over to thread `arg`
    SIM_D_SPURIOUS = 1,    // F2: spuriously wake cond waiter `arg`
    SIM_D_TRYFAIL = 2,     // F4: this trylock fails spuriously
    SIM_D_CLOCKJUMP = 3,   // F3: clock jumps forward by `arg` ns
    SIM_D_SIGPICK = 4,     // notify_one picks waiter `arg` (non FIFO)
    SIM_D_STALL = 5,       // F1: freeze current thread for `arg` steps
    SIM_D_NKINDS = 6,
};

struct sim_config {
    uint64_t seed;            // schedule/fault PRNG seed
    int strategy;             // sim_strategy
    uint32_t p_switch;        // walk: switch probability, scaled to 2^32
    int pct_depth;            // pct: number of priority change points
    uint64_t pct_len;         // pct: estimated run length in points
    uint32_t p_conflict;      // conflict: switch probability at a racing access
    uint32_t p_base;          // conflict/focus: switch probability elsewhere
    uint32_t p_focus;         // focus: switch probability inside focus ranges
    int rr_quantum;           // rr: points per slice
    uint64_t time_quantum_ns; // virtual ns per schedule point
    uint32_t p_spurious;      // F2 per cond-wait-eligible point
    uint32_t p_tryfail;       // F4 per trylock
    uint32_t p_clockjump;     // F3 per clock read
    uint64_t clockjump_max_ns;
    uint32_t p_stall;         // F1 stall per switch decision
    uint64_t stall_max_steps;
    uint64_t max_steps;       // hard cap on steps in the fault phase (0 = none)
    uint32_t spin_limit;      // consecutive non-progress points before a forced switch
    int record;               // 1: keep the list of non-default decisions
};

struct sim_decision {
    uint32_t tid;
    uint32_t kind;
    uint64_t n;     // per-thread point counter at which the decision applies
    uint64_t arg;
};

struct sim_stats {
    uint64_t steps;
    uint64_t switches;
    uint64_t forced_switches;   // blocking / yield hand-offs
    uint64_t preemptions;       // switches at a non-blocking point
    uint64_t vtime_ns;
    uint64_t hash;
    uint64_t fault_counts[SIM_D_NKINDS];
    uint64_t spin_forced;
    uint64_t time_jumps;        // discrete-event jumps (nothing runnable)
    uint64_t threads_created;
    uint64_t max_runnable;
    uint64_t focus_preemptions; // preemptions landing inside a focus range with >=2 runnable
    uint64_t quiesce_start_step;
    uint64_t auto_quiesced;
    uint64_t mem_points;        // plain-memory schedule points (fully instrumented translation units only)     // 1 if the fault-phase step cap forced the quiescence phase
};

typedef void (*sim_fail_fn)(const char* cls, const char* msg);

// Start simulating: the caller becomes simulated thread 0. Never returns control to the OS scheduler
// for simulated threads afterwards.
void sim_begin(const struct sim_config* cfg);
int sim_active(void);
int sim_tid(void);                 // simulated thread id of the caller (-1 if none)
uint64_t sim_seq(void);            // global event sequence number (no schedule point)
uint64_t sim_now_ns(void);         // virtual clock (no schedule point)
void sim_get_stats(struct sim_stats* out);
void sim_hash_mix(uint64_t v);     // workload events enter the event hash
// Enter the quiescence phase: faults off, fair round-robin, at most `budget` further steps.
void sim_quiesce(uint64_t budget);
// multiply every quiescence budget (debugging aid: "is it a hang or just slow?")
void sim_set_budget_scale(uint64_t n);
// Called on deadlock ("deadlock"), exhausted budget ("budget") or step cap ("steps").
void sim_set_fail_handler(sim_fail_fn fn);
// scripted replay: decisions must be sorted by (tid, n, kind)
void sim_set_script(const struct sim_decision* d, size_t n);
size_t sim_get_record(const struct sim_decision** d);
// focus ranges (absolute addresses)
void sim_add_focus_range(uintptr_t lo, uintptr_t hi, int id);
uint64_t sim_focus_hits(int id);   // preemptions inside range id
// an explicit schedule point for harness code (counts as progress)
void sim_point_user(void);
// describe blocked threads into buf (for failure dumps)
size_t sim_describe(char* buf, size_t cap);
// write the last `last_n` schedule points (flight recorder) to fd
void sim_dump_trace(int fd, int last_n);
// called at the start of every simulated thread (e.g. to install an alternate signal stack)
void sim_set_thread_start_hook(void (*fn)(void));
// number of threads currently runnable / total alive
int sim_count_runnable(void);

// A harness bookkeeping section: schedule points inside are counted but never preempt the caller
// (needed in fully instrumented translation units, where the harness's own plain accesses are
// schedule points too). Must not contain blocking calls.
void sim_atomic_begin(void);
void sim_atomic_end(void);

// ---- simulated MPI transport (sim/mpi_stub.cpp)
struct sim_mpi_stats {
    uint64_t posted, completed, inflight, tests, test_on_freed, bad_handle, last_completion_seq;
};
void sim_mpi_configure(uint64_t seed, uint64_t min_delay_ns, uint64_t max_delay_ns, uint64_t burst_ns);
void sim_mpi_get_stats(struct sim_mpi_stats* out);
// 0 = in flight, 1 = complete in the transport but not yet reported, 2 = reported, -1 = not a request
int sim_mpi_request_state(void* handle);
/* while on, no request completes; switching it off re-draws every outstanding completion time from now */
void sim_mpi_hold(int on);
void sim_mpi_set_world_size(int n);

#ifdef __cplusplus
}
#endif
