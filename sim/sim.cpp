// pikasim — deterministic serialising scheduler over real threads (one baton), virtual clock,
// interposed pthread/clock/sleep surface, __tsan_atomic* runtime, fault injection.
// Built WITHOUT instrumentation. See /verif/DESIGN.md §2.
#ifndef _GNU_SOURCE
# define _GNU_SOURCE
#endif
#include "sim.h"

#include <dlfcn.h>
#include <errno.h>
#include <limits.h>
#include <linux/futex.h>
#include <pthread.h>
#include <sched.h>
#include <stdio.h>
#include <stdlib.h>
#include <string.h>
#include <sys/mman.h>
#include <sys/syscall.h>
#include <sys/time.h>
#include <time.h>
#include <unistd.h>

#define SIM_EXPORT extern "C" __attribute__((visibility("default")))
#define MAXT 256

// ------------------------------------------------------------------------------------------------
// state
// ------------------------------------------------------------------------------------------------
enum TState {
    T_UNUSED = 0,
    T_RUNNABLE,
    T_MUTEX,
    T_COND,
    T_JOIN,
    T_ONCE,
    T_SLEEP,
    T_STALL,
    T_FINISHED
};

enum PKind {
    K_LOAD = 0,
    K_STORE,
    K_RMW,
    K_CAS,
    K_FENCE,
    K_LOCK,
    K_UNLOCK,
    K_TRYLOCK,
    K_CWAIT,
    K_CSIGNAL,
    K_YIELD,
    K_SLEEP,
    K_CLOCK,
    K_CREATE,
    K_EXIT,
    K_JOIN,
    K_ONCE,
    K_USER,
    K_SPIN,
    K_MEMR,
    K_MEMW,
};

struct SimThread {
    int id;
    int fut;
    int st;
    const void* wobj;
    pthread_mutex_t* cmutex;
    uint64_t deadline;
    int has_deadline;
    int wake_reason;    // 0 signalled, 1 timeout, 2 spurious
    uint64_t arrival;
    uint64_t npts;
    uint64_t trace_step;    // step number of this thread's latest schedule point
    uint32_t noprog;
    int spinning;
    uint64_t spin_epoch;
    int64_t prio;
    int slice;
    int slice_len;
    pthread_t real;
    void* (*fn)(void*);
    void* arg;
    void* ret;
    int join_target;
    uint64_t stall_until;
    int exit_rounds;
    int atomic_depth;    // >0: harness bookkeeping section, never preempted
};

static SimThread g_thr[MAXT];
static int g_nthr = 0;
static volatile int g_on = 0;
static __thread SimThread* tl_self __attribute__((tls_model("initial-exec"))) = nullptr;

static sim_config g_cfg;
static sim_stats g_st;
static uint64_t g_step = 0;
static uint64_t g_vtime = 0;
static uint64_t g_next_deadline = ~0ull;
static uint64_t g_arrival = 0;
static uint64_t g_progress_epoch = 1;
static int g_quiesced = 0;
static int g_auto_quiesced = 0;
static uint64_t g_budget_end = 0;
static int g_wake_pending = 0;
static int g_ncondwait = 0;
static int64_t g_lowprio = 0;
static uint64_t g_pct_change[8];
static int g_rr_quantum = 200;
static sim_fail_fn g_fail = nullptr;
static uint64_t g_hash = 1469598103934665603ull;

static const uint64_t CLOCK_BASE_NS = 1000000000ull;    // virtual epoch + 1 s

// PRNG (xoshiro256**) seeded by splitmix64
static uint64_t g_rs[4];
static inline uint64_t rotl(uint64_t x, int k) { return (x << k) | (x >> (64 - k)); }
static inline uint64_t rnd64()
{
    uint64_t const result = rotl(g_rs[1] * 5, 7) * 9;
    uint64_t const t = g_rs[1] << 17;
    g_rs[2] ^= g_rs[0];
    g_rs[3] ^= g_rs[1];
    g_rs[1] ^= g_rs[2];
    g_rs[0] ^= g_rs[3];
    g_rs[2] ^= t;
    g_rs[3] = rotl(g_rs[3], 45);
    return result;
}
static inline uint32_t rnd32() { return (uint32_t) (rnd64() >> 32); }
static inline uint64_t rnd_below(uint64_t n) { return n ? rnd64() % n : 0; }
static void seed_rng(uint64_t s)
{
    for (int i = 0; i < 4; i++)
    {
        s += 0x9e3779b97f4a7c15ull;
        uint64_t z = s;
        z = (z ^ (z >> 30)) * 0xbf58476d1ce4e5b9ull;
        z = (z ^ (z >> 27)) * 0x94d049bb133111ebull;
        g_rs[i] = z ^ (z >> 31);
    }
}

static inline void hmix(uint64_t v)
{
    for (int i = 0; i < 8; i++)
    {
        g_hash ^= (v & 0xff);
        g_hash *= 1099511628211ull;
        v >>= 8;
    }
}

// flight recorder: the last TRACE_N schedule points
#define TRACE_N 16384
struct TraceEnt {
    uint64_t step;
    uint32_t tid;
    uint32_t kind;
    uintptr_t addr;
    uintptr_t pc;
    uint64_t v0, v1;    // value seen / written by the operation (diagnostics only)
    uint32_t ok;        // 0 none, 1 value only, 2 cas failed, 3 cas succeeded
};
static TraceEnt g_trace[TRACE_N];

// script / record
static const sim_decision* g_script = nullptr;
static size_t g_nscript = 0;
static sim_decision* g_rec = nullptr;
static size_t g_nrec = 0, g_caprec = 0;

static void rec_add(uint32_t tid, uint32_t kind, uint64_t n, uint64_t arg)
{
    // the quiescence phase is always scheduled by the fair round-robin, never by a script
    if (!g_cfg.record || g_quiesced) return;
    if (!g_rec)
    {
        // far away from everything else, so that recording does not move any other mapping
        g_caprec = 1u << 22;
        void* p = mmap((void*) 0x100000000000ull, g_caprec * sizeof(sim_decision),
            PROT_READ | PROT_WRITE, MAP_PRIVATE | MAP_ANONYMOUS | MAP_FIXED_NOREPLACE | MAP_NORESERVE,
            -1, 0);
        if (p == MAP_FAILED)
        {
            g_cfg.record = 0;
            return;
        }
        g_rec = (sim_decision*) p;
    }
    if (g_nrec == g_caprec) return;
    g_rec[g_nrec++] = sim_decision{tid, kind, n, arg};
}

static const sim_decision* script_find(uint32_t tid, uint64_t n, uint32_t kind)
{
    size_t lo = 0, hi = g_nscript;
    while (lo < hi)
    {
        size_t mid = (lo + hi) / 2;
        const sim_decision& d = g_script[mid];
        int c = d.tid != tid ? (d.tid < tid ? -1 : 1) :
            d.n != n         ? (d.n < n ? -1 : 1) :
            d.kind != kind   ? (d.kind < kind ? -1 : 1) :
                               0;
        if (c == 0) return &d;
        if (c < 0)
            lo = mid + 1;
        else
            hi = mid;
    }
    return nullptr;
}

// focus ranges
struct FocusRange {
    uintptr_t lo, hi;
    int id;
};
static FocusRange g_focus[256];
static int g_nfocus = 0;
static uint64_t g_focus_hits[256];

// conflict table
struct ConflictEnt {
    const void* addr;
    int tid;
};
static ConflictEnt g_conf[4096];

// ------------------------------------------------------------------------------------------------
// real functions
// ------------------------------------------------------------------------------------------------
#define REAL(name) real_##name
#define DECL_REAL(ret, name, ...) static ret (*real_##name)(__VA_ARGS__) = nullptr;
DECL_REAL(int, pthread_create, pthread_t*, const pthread_attr_t*, void* (*) (void*), void*)
DECL_REAL(int, pthread_join, pthread_t, void**)
DECL_REAL(int, pthread_detach, pthread_t)
DECL_REAL(int, pthread_mutex_lock, pthread_mutex_t*)
DECL_REAL(int, pthread_mutex_trylock, pthread_mutex_t*)
DECL_REAL(int, pthread_mutex_unlock, pthread_mutex_t*)
DECL_REAL(int, pthread_mutex_timedlock, pthread_mutex_t*, const struct timespec*)
DECL_REAL(int, pthread_mutex_clocklock, pthread_mutex_t*, clockid_t, const struct timespec*)
DECL_REAL(int, pthread_cond_wait, pthread_cond_t*, pthread_mutex_t*)
DECL_REAL(int, pthread_cond_timedwait, pthread_cond_t*, pthread_mutex_t*, const struct timespec*)
DECL_REAL(int, pthread_cond_clockwait, pthread_cond_t*, pthread_mutex_t*, clockid_t,
    const struct timespec*)
DECL_REAL(int, pthread_cond_signal, pthread_cond_t*)
DECL_REAL(int, pthread_cond_broadcast, pthread_cond_t*)
DECL_REAL(int, pthread_once, pthread_once_t*, void (*)(void))
DECL_REAL(int, sched_yield, void)
DECL_REAL(int, nanosleep, const struct timespec*, struct timespec*)
DECL_REAL(int, clock_nanosleep, clockid_t, int, const struct timespec*, struct timespec*)
DECL_REAL(int, usleep, useconds_t)
DECL_REAL(unsigned, sleep, unsigned)
DECL_REAL(int, clock_gettime, clockid_t, struct timespec*)
DECL_REAL(int, gettimeofday, struct timeval*, void*)
DECL_REAL(time_t, time, time_t*)
DECL_REAL(int, sched_setaffinity, pid_t, size_t, const cpu_set_t*)
DECL_REAL(int, pthread_setaffinity_np, pthread_t, size_t, const cpu_set_t*)
DECL_REAL(int, __cxa_guard_acquire, uint64_t*)
DECL_REAL(void, __cxa_guard_release, uint64_t*)
DECL_REAL(void, __cxa_guard_abort, uint64_t*)

static int g_resolved = 0;
static void* vsym(const char* name, const char* ver)
{
    void* p = dlvsym(RTLD_NEXT, name, ver);
    if (!p) p = dlsym(RTLD_NEXT, name);
    return p;
}
static void resolve_all()
{
    if (g_resolved) return;
    g_resolved = 1;
#define RES(name) real_##name = (decltype(real_##name)) dlsym(RTLD_NEXT, #name);
    RES(pthread_create)
    RES(pthread_join)
    RES(pthread_detach)
    RES(pthread_mutex_lock)
    RES(pthread_mutex_trylock)
    RES(pthread_mutex_unlock)
    RES(pthread_mutex_timedlock)
    RES(pthread_mutex_clocklock)
    real_pthread_cond_wait = (decltype(real_pthread_cond_wait)) vsym("pthread_cond_wait", "GLIBC_2.3.2");
    real_pthread_cond_timedwait =
        (decltype(real_pthread_cond_timedwait)) vsym("pthread_cond_timedwait", "GLIBC_2.3.2");
    RES(pthread_cond_clockwait)
    real_pthread_cond_signal =
        (decltype(real_pthread_cond_signal)) vsym("pthread_cond_signal", "GLIBC_2.3.2");
    real_pthread_cond_broadcast =
        (decltype(real_pthread_cond_broadcast)) vsym("pthread_cond_broadcast", "GLIBC_2.3.2");
    RES(pthread_once)
    RES(sched_yield)
    RES(nanosleep)
    RES(clock_nanosleep)
    RES(usleep)
    RES(sleep)
    RES(clock_gettime)
    RES(gettimeofday)
    RES(time)
    RES(sched_setaffinity)
    RES(pthread_setaffinity_np)
    RES(__cxa_guard_acquire)
    RES(__cxa_guard_release)
    RES(__cxa_guard_abort)
#undef RES
}
__attribute__((constructor(101))) static void sim_ctor() { resolve_all(); }

// ------------------------------------------------------------------------------------------------
// baton
// ------------------------------------------------------------------------------------------------
static inline long sys_futex(int* addr, int op, int val)
{
    return syscall(SYS_futex, addr, op, val, nullptr, nullptr, 0);
}
static void park(SimThread* me)
{
    while (__atomic_load_n(&me->fut, __ATOMIC_ACQUIRE) == 0)
        sys_futex(&me->fut, FUTEX_WAIT_PRIVATE, 0);
    __atomic_store_n(&me->fut, 0, __ATOMIC_RELAXED);
}
static void unpark(SimThread* t)
{
    __atomic_store_n(&t->fut, 1, __ATOMIC_RELEASE);
    sys_futex(&t->fut, FUTEX_WAKE_PRIVATE, 1);
}
static __attribute__((noreturn)) void park_forever()
{
    static int never = 0;
    for (;;) sys_futex(&never, FUTEX_WAIT_PRIVATE, 0);
}

static __attribute__((noreturn)) void sim_fail(const char* cls, const char* msg)
{
    g_on = 0;
    if (g_fail) g_fail(cls, msg);
    fprintf(stderr, "pikasim: %s: %s\n", cls, msg);
    _exit(70);
}

static void handoff(SimThread* me, SimThread* next, int kind)
{
    g_st.switches++;
    hmix(g_step);
    hmix(((uint64_t) me->id << 32) | ((uint64_t) next->id << 8) | (uint64_t) kind);
    next->slice = 0;
    unpark(next);
    park(me);
}

// ------------------------------------------------------------------------------------------------
// time
// ------------------------------------------------------------------------------------------------
static void make_runnable(SimThread* t)
{
    if (t->st == T_COND) g_ncondwait--;
    t->st = T_RUNNABLE;
    t->has_deadline = 0;
    g_wake_pending = 1;
}

static void expire_timers()
{
    uint64_t nd = ~0ull;
    for (int i = 0; i < g_nthr; i++)
    {
        SimThread* t = &g_thr[i];
        if (!t->has_deadline) continue;
        if (t->st != T_SLEEP && t->st != T_COND && t->st != T_MUTEX)
        {
            t->has_deadline = 0;
            continue;
        }
        if (t->deadline <= g_vtime)
        {
            if (t->st == T_COND) t->wake_reason = 1;
            make_runnable(t);
        }
        else if (t->deadline < nd)
            nd = t->deadline;
    }
    g_next_deadline = nd;
}
static inline void advance_time(uint64_t dt)
{
    g_vtime += dt;
    if (g_vtime >= g_next_deadline) expire_timers();
}
static inline void set_deadline(SimThread* t, uint64_t dl)
{
    t->deadline = dl;
    t->has_deadline = 1;
    if (dl < g_next_deadline) g_next_deadline = dl;
}

// ------------------------------------------------------------------------------------------------
// choosing
// ------------------------------------------------------------------------------------------------
static inline bool is_stale_spinner(SimThread* t)
{
    return t->spinning && t->spin_epoch == g_progress_epoch;
}

static void release_stalls()
{
    for (int i = 0; i < g_nthr; i++)
    {
        SimThread* t = &g_thr[i];
        if (t->st == T_STALL && g_step >= t->stall_until) make_runnable(t);
    }
}

// collect runnable candidates other than `me` (me may be null); returns count
static int collect(SimThread* me, SimThread** out, bool avoid_spinners)
{
    int n = 0;
    for (int i = 0; i < g_nthr; i++)
    {
        SimThread* t = &g_thr[i];
        if (t == me || t->st != T_RUNNABLE) continue;
        if (avoid_spinners && is_stale_spinner(t)) continue;
        out[n++] = t;
    }
    return n;
}

static int count_runnable()
{
    int n = 0;
    for (int i = 0; i < g_nthr; i++)
        if (g_thr[i].st == T_RUNNABLE) n++;
    return n;
}

// choose a thread other than `me` to run; nullptr if none runnable.
// `dflt` receives what the default rule (lowest id) would have chosen.
static SimThread* choose_other(SimThread* me, SimThread** dflt)
{
    static SimThread* cand[MAXT];    // static: simulated threads may run on tiny task stacks
    // fairness: under rr / quiescence every runnable thread takes its turn; the random strategies
    // prefer threads that are not known to be spinning, but not always
    bool fair = g_quiesced || g_cfg.strategy == SIM_RR || g_cfg.strategy == SIM_SCRIPT;
    bool avoid = !fair && (rnd32() & 7) != 0;
    if (g_cfg.strategy == SIM_SCRIPT) avoid = !g_quiesced;
    int n = collect(me, cand, avoid);
    if (n == 0 && avoid) n = collect(me, cand, false);
    if (n == 0)
    {
        *dflt = nullptr;
        return nullptr;
    }
    *dflt = cand[0];
    if (g_cfg.strategy == SIM_SCRIPT && !g_quiesced) return cand[0];
    if (g_quiesced || g_cfg.strategy == SIM_RR)
    {
        // next in cyclic id order after me
        int base = me ? me->id : -1;
        SimThread* best = nullptr;
        for (int i = 0; i < n; i++)
            if (cand[i]->id > base)
            {
                best = cand[i];
                break;
            }
        return best ? best : cand[0];
    }
    if (g_cfg.strategy == SIM_PCT)
    {
        SimThread* best = cand[0];
        for (int i = 1; i < n; i++)
            if (cand[i]->prio > best->prio) best = cand[i];
        return best;
    }
    return cand[rnd_below(n)];
}

static inline int focus_lookup(uintptr_t pc)
{
    for (int i = 0; i < g_nfocus; i++)
        if (pc >= g_focus[i].lo && pc < g_focus[i].hi) return g_focus[i].id;
    return -1;
}

SIM_EXPORT void sim_quiesce(uint64_t budget);
static void check_caps()
{
    if (g_budget_end && g_step > g_budget_end) sim_fail("budget", "quiescence step budget exhausted");
    if (!g_quiesced && g_cfg.max_steps && g_step > g_cfg.max_steps)
    {
        // the fault phase ran too long: stop injecting, schedule fairly, and give the run one
        // quiescence budget to finish (bounded liveness is only ever judged under fairness)
        g_auto_quiesced = 1;
        sim_quiesce(g_cfg.max_steps);
    }
}

// Block the calling thread (its state has been set to a non-runnable one) until it is made
// runnable and chosen again.
static void block(SimThread* me, int kind)
{
    me->npts++;
    for (;;)
    {
        release_stalls();
        SimThread* dflt;
        SimThread* next = choose_other(me, &dflt);
        if (next)
        {
            if (g_cfg.strategy == SIM_SCRIPT && !g_quiesced)
            {
                const sim_decision* d = script_find(me->id, me->npts, SIM_D_SWITCH);
                if (d && d->arg < (uint64_t) g_nthr && g_thr[d->arg].st == T_RUNNABLE &&
                    &g_thr[d->arg] != me)
                    next = &g_thr[d->arg];
            }
            if (next != dflt) rec_add(me->id, SIM_D_SWITCH, me->npts, next->id);
            g_st.forced_switches++;
            handoff(me, next, kind);
            return;
        }
        // nothing else runnable
        if (me->st == T_RUNNABLE) return;    // e.g. woken by a timer expiry below
        // stalled threads?
        bool released = false;
        for (int i = 0; i < g_nthr; i++)
            if (g_thr[i].st == T_STALL)
            {
                make_runnable(&g_thr[i]);
                released = true;
                break;
            }
        if (released)
        {
            if (me->st == T_RUNNABLE) return;
            continue;
        }
        if (g_next_deadline != ~0ull)
        {
            g_st.time_jumps++;
            if (g_next_deadline > g_vtime) g_vtime = g_next_deadline;
            expire_timers();
            if (me->st == T_RUNNABLE) return;
            continue;
        }
        sim_fail("deadlock", "no runnable thread and no pending timer");
    }
}

// A schedule point for a running thread. May preempt.
static void point(SimThread* me, int kind, const void* addr, uintptr_t pc)
{
    g_step++;
    me->npts++;
    {
        TraceEnt& te = g_trace[g_step & (TRACE_N - 1)];
        te.step = g_step;
        te.tid = (uint32_t) me->id;
        te.kind = (uint32_t) kind;
        te.addr = (uintptr_t) addr;
        te.pc = pc;
        te.ok = 0;
        me->trace_step = g_step;
    }
    advance_time(g_cfg.time_quantum_ns);
    if ((g_step & 1023) == 0)
    {
        check_caps();
        release_stalls();
    }
    if (me->atomic_depth > 0) return;    // harness bookkeeping: observed, never preempted

    bool want = false;
    bool forced_spin = false;
    int fid = -1;
    bool yieldish = (kind == K_YIELD);

    if (me->noprog >= g_cfg.spin_limit)
    {
        me->noprog = 0;
        me->spinning = 1;
        me->spin_epoch = g_progress_epoch;
        g_st.spin_forced++;
        forced_spin = true;
        want = true;
        if (g_cfg.strategy == SIM_PCT) me->prio = --g_lowprio;
    }

    if (g_cfg.strategy == SIM_SCRIPT && !g_quiesced)
    {
        if (g_ncondwait > 0)
        {
            const sim_decision* sp = script_find(me->id, me->npts, SIM_D_SPURIOUS);
            if (sp && sp->arg < (uint64_t) g_nthr && g_thr[sp->arg].st == T_COND)
            {
                SimThread* v = &g_thr[sp->arg];
                v->wake_reason = 2;
                make_runnable(v);
                g_st.fault_counts[SIM_D_SPURIOUS]++;
                hmix(0xF2000000ull | v->id);
                rec_add(me->id, SIM_D_SPURIOUS, me->npts, v->id);
            }
        }
        const sim_decision* d = script_find(me->id, me->npts, SIM_D_SWITCH);
        if (d)
        {
            if (d->arg < (uint64_t) g_nthr && g_thr[d->arg].st == T_RUNNABLE && &g_thr[d->arg] != me)
            {
                SimThread* next = &g_thr[d->arg];
                const sim_decision* stl = script_find(me->id, me->npts, SIM_D_STALL);
                if (stl && !g_quiesced)
                {
                    me->st = T_STALL;
                    me->stall_until = g_step + stl->arg;
                    g_st.fault_counts[SIM_D_STALL]++;
                    rec_add(me->id, SIM_D_STALL, me->npts, stl->arg);
                    hmix(0xF1000000ull | me->id);
                }
                rec_add(me->id, SIM_D_SWITCH, me->npts, next->id);
                g_st.preemptions++;
                handoff(me, next, kind);
                return;
            }
        }
        if (!(forced_spin || yieldish)) return;
        SimThread* dflt;
        SimThread* next = choose_other(me, &dflt);
        if (next)
        {
            g_st.forced_switches++;
            handoff(me, next, kind);
        }
        return;
    }

    // injected faults at this point (fault phase only)
    if (!g_quiesced)
    {
        if (g_ncondwait > 0 && g_cfg.p_spurious && rnd32() < g_cfg.p_spurious)
        {
            static SimThread* w[MAXT];
            int n = 0;
            for (int i = 0; i < g_nthr; i++)
                if (g_thr[i].st == T_COND) w[n++] = &g_thr[i];
            if (n)
            {
                SimThread* v = w[rnd_below(n)];
                v->wake_reason = 2;
                make_runnable(v);
                g_st.fault_counts[SIM_D_SPURIOUS]++;
                hmix(0xF2000000ull | v->id);
                rec_add(me->id, SIM_D_SPURIOUS, me->npts, v->id);
            }
        }
    }

    if (yieldish || forced_spin)
        want = true;
    else if (g_quiesced || g_cfg.strategy == SIM_RR)
    {
        // jittered quantum: a fixed quantum can resonate with a periodic loop of another thread
        // (always preempting it inside the same critical section) and starve a third one
        if (++me->slice >= me->slice_len)
        {
            want = true;
            me->slice_len = g_rr_quantum / 2 + 1 + (int) rnd_below((uint64_t) g_rr_quantum);
        }
    }
    else
    {
        switch (g_cfg.strategy)
        {
        case SIM_WALK:
            want = rnd32() < g_cfg.p_switch;
            break;
        case SIM_PCT:
        {
            for (int i = 0; i < g_cfg.pct_depth && i < 8; i++)
                if (g_pct_change[i] == g_step)
                {
                    me->prio = --g_lowprio;
                    want = true;
                }
            if (g_wake_pending) want = true;
            // fairness fallback: a thread that keeps the baton for very long (an idle loop that
            // "progresses" by bumping counters) is demoted like at a change point
            if (me->slice++ > 4000)
            {
                me->slice = 0;
                me->prio = --g_lowprio;
                want = true;
            }
            break;
        }
        case SIM_CONFLICT:
        {
            bool racing = false;
            if (addr)
            {
                ConflictEnt* e = &g_conf[((uintptr_t) addr >> 3) & 4095];
                racing = (e->addr == addr && e->tid != me->id);
                if (kind != K_LOAD && kind != K_MEMR)
                {
                    e->addr = addr;
                    e->tid = me->id;
                }
            }
            want = rnd32() < (racing ? g_cfg.p_conflict : g_cfg.p_base);
            break;
        }
        case SIM_FOCUS:
        {
            fid = g_nfocus ? focus_lookup(pc) : -1;
            want = rnd32() < (fid >= 0 ? g_cfg.p_focus : g_cfg.p_base);
            break;
        }
        default:
            break;
        }
    }
    g_wake_pending = 0;
    if (!want) return;

    SimThread* dflt;
    SimThread* next = choose_other(me, &dflt);
    if (!next) return;
    if (g_cfg.strategy == SIM_PCT && !g_quiesced && !(yieldish || forced_spin))
    {
        // only switch if someone has a higher priority
        if (next->prio < me->prio) return;
    }
    if (yieldish && g_cfg.strategy == SIM_PCT) me->prio = --g_lowprio;

    // F1 stall: freeze the preempted thread for a while
    if (!g_quiesced && !yieldish && !forced_spin && g_cfg.p_stall && rnd32() < g_cfg.p_stall)
    {
        uint64_t len = 1 + rnd_below(g_cfg.stall_max_steps);
        me->st = T_STALL;
        me->stall_until = g_step + len;
        g_st.fault_counts[SIM_D_STALL]++;
        rec_add(me->id, SIM_D_STALL, me->npts, len);
        hmix(0xF1000000ull | me->id);
    }

    if (yieldish || forced_spin)
    {
        if (next != dflt) rec_add(me->id, SIM_D_SWITCH, me->npts, next->id);
        g_st.forced_switches++;
    }
    else
    {
        rec_add(me->id, SIM_D_SWITCH, me->npts, next->id);
        g_st.preemptions++;
        if (fid < 0 && g_nfocus) fid = focus_lookup(pc);
        if (fid >= 0)
        {
            g_focus_hits[fid]++;
            g_st.focus_preemptions++;
        }
    }
    handoff(me, next, kind);
}

static inline void after_op(SimThread* me, bool progress)
{
    if (progress)
    {
        me->noprog = 0;
        me->spinning = 0;
        g_progress_epoch++;
    }
    else
        me->noprog++;
}

#define SELF() (g_on ? tl_self : nullptr)
#define PC() ((uintptr_t) __builtin_return_address(0))

// ------------------------------------------------------------------------------------------------
// public API
// ------------------------------------------------------------------------------------------------
SIM_EXPORT void sim_begin(const sim_config* cfg)
{
    resolve_all();
    g_cfg = *cfg;
    if (g_cfg.spin_limit == 0) g_cfg.spin_limit = 300;
    if (g_cfg.time_quantum_ns == 0) g_cfg.time_quantum_ns = 100;
    if (g_cfg.rr_quantum <= 0) g_cfg.rr_quantum = 200;
    g_rr_quantum = g_cfg.rr_quantum;
    seed_rng(g_cfg.seed);
    memset(&g_st, 0, sizeof(g_st));
    if (g_cfg.strategy == SIM_PCT)
    {
        uint64_t len = g_cfg.pct_len ? g_cfg.pct_len : 50000;
        for (int i = 0; i < 8; i++) g_pct_change[i] = 1 + rnd_below(len);
    }
    SimThread* t = &g_thr[0];
    memset(t, 0, sizeof(*t));
    t->id = 0;
    t->st = T_RUNNABLE;
    t->real = pthread_self();
    t->prio = (int64_t) (rnd64() >> 2);
    g_nthr = 1;
    g_st.threads_created = 1;
    tl_self = t;
    g_on = 1;
}
SIM_EXPORT int sim_active(void) { return g_on && tl_self; }
SIM_EXPORT int sim_tid(void) { return tl_self ? tl_self->id : -1; }
SIM_EXPORT uint64_t sim_seq(void) { return g_step; }
SIM_EXPORT uint64_t sim_now_ns(void) { return CLOCK_BASE_NS + g_vtime; }
SIM_EXPORT void sim_get_stats(sim_stats* out)
{
    g_st.steps = g_step;
    g_st.vtime_ns = g_vtime;
    g_st.hash = g_hash;
    g_st.auto_quiesced = (uint64_t) g_auto_quiesced;
    *out = g_st;
}
SIM_EXPORT void sim_hash_mix(uint64_t v) { hmix(v); }
static uint64_t g_budget_scale = 1;
SIM_EXPORT void sim_set_budget_scale(uint64_t n) { g_budget_scale = n ? n : 1; }
SIM_EXPORT void sim_quiesce(uint64_t budget)
{
    budget *= g_budget_scale;
    if (!g_quiesced)
    {
        g_quiesced = 1;
        g_st.quiesce_start_step = g_step;
        hmix(0xC0000000ull);
    }
    g_budget_end = g_step + budget;
    if (g_rr_quantum < 64) g_rr_quantum = 64;
    for (int i = 0; i < g_nthr; i++)
        if (g_thr[i].st == T_STALL) make_runnable(&g_thr[i]);
}
SIM_EXPORT void sim_set_fail_handler(sim_fail_fn fn) { g_fail = fn; }
SIM_EXPORT void sim_set_script(const sim_decision* d, size_t n)
{
    g_script = d;
    g_nscript = n;
}
SIM_EXPORT size_t sim_get_record(const sim_decision** d)
{
    *d = g_rec;
    return g_nrec;
}
SIM_EXPORT void sim_add_focus_range(uintptr_t lo, uintptr_t hi, int id)
{
    if (g_nfocus < 256) g_focus[g_nfocus++] = FocusRange{lo, hi, id};
}
SIM_EXPORT uint64_t sim_focus_hits(int id) { return (id >= 0 && id < 256) ? g_focus_hits[id] : 0; }
SIM_EXPORT void sim_point_user(void)
{
    SimThread* me = SELF();
    if (!me) return;
    point(me, K_USER, nullptr, PC());
    after_op(me, true);
}
SIM_EXPORT int sim_count_runnable(void) { return count_runnable(); }
SIM_EXPORT void sim_dump_trace(int fd, int last_n)
{
    static const char* kn[] = {"load", "store", "rmw", "cas", "fence", "lock", "unlock", "trylock",
        "cwait", "csignal", "yield", "sleep", "clock", "create", "exit", "join", "once", "user", "spin", "mem-read",
        "mem-write"};
    if (last_n > TRACE_N) last_n = TRACE_N;
    uint64_t from = g_step > (uint64_t) last_n ? g_step - (uint64_t) last_n + 1 : 1;
    char buf[240];
    for (uint64_t s = from; s <= g_step; s++)
    {
        TraceEnt& te = g_trace[s & (TRACE_N - 1)];
        if (te.step != s) continue;
        int n;
        if (te.ok)
            n = snprintf(buf, sizeof(buf), "%llu T%u %s%s addr=%p val=%llx:%llx pc=%p\n", (unsigned long long) te.step, te.tid,
                te.kind < 21 ? kn[te.kind] : "?", te.ok == 3 ? "+" : te.ok == 2 ? "-" : "", (void*) te.addr,
                (unsigned long long) te.v1, (unsigned long long) te.v0, (void*) te.pc);
        else
            n = snprintf(buf, sizeof(buf), "%llu T%u %s addr=%p pc=%p\n", (unsigned long long) te.step, te.tid,
                te.kind < 21 ? kn[te.kind] : "?", (void*) te.addr, (void*) te.pc);
        if (write(fd, buf, (size_t) n) < 0) break;
    }
}
// ------------------------------------------------------------------------------------------------
// atomics (__tsan_atomic*) — schedule point, then the real operation (seq_cst)
// ------------------------------------------------------------------------------------------------
typedef unsigned char a8;
typedef unsigned short a16;
typedef unsigned int a32;
typedef unsigned long long a64;
typedef __int128 a128;

#define MO __ATOMIC_SEQ_CST

// annotate the flight-recorder entry of the calling thread's latest point with the value it saw
static inline void tval(SimThread* me, uint32_t ok, uint64_t lo, uint64_t hi)
{
    TraceEnt& te = g_trace[me->trace_step & (TRACE_N - 1)];
    if (te.step != me->trace_step) return;
    te.ok = ok;
    te.v0 = lo;
    te.v1 = hi;
}

#define DEF_ATOMICS(N, T)                                                                          \
    SIM_EXPORT T __tsan_atomic##N##_load(const volatile T* a, int)                                 \
    {                                                                                              \
        SimThread* me = SELF();                                                                    \
        if (me) point(me, K_LOAD, (const void*) a, PC());                                          \
        T v = __atomic_load_n((T*) a, MO);                                                         \
        if (me) tval(me, 1, (uint64_t) v, 0);                                                      \
        if (me) after_op(me, false);                                                               \
        return v;                                                                                  \
    }                                                                                              \
    SIM_EXPORT void __tsan_atomic##N##_store(volatile T* a, T v, int)                              \
    {                                                                                              \
        SimThread* me = SELF();                                                                    \
        if (me) point(me, K_STORE, (const void*) a, PC());                                         \
        T old = __atomic_exchange_n((T*) a, v, MO);                                                \
        if (me) tval(me, 1, (uint64_t) v, 0);                                                      \
        if (me) after_op(me, old != v);                                                            \
    }                                                                                              \
    SIM_EXPORT T __tsan_atomic##N##_exchange(volatile T* a, T v, int)                              \
    {                                                                                              \
        SimThread* me = SELF();                                                                    \
        if (me) point(me, K_RMW, (const void*) a, PC());                                           \
        T old = __atomic_exchange_n((T*) a, v, MO);                                                \
        if (me) after_op(me, old != v);                                                            \
        return old;                                                                                \
    }                                                                                              \
    SIM_EXPORT T __tsan_atomic##N##_fetch_add(volatile T* a, T v, int)                             \
    {                                                                                              \
        SimThread* me = SELF();                                                                    \
        if (me) point(me, K_RMW, (const void*) a, PC());                                           \
        T old = __atomic_fetch_add((T*) a, v, MO);                                                 \
        if (me) after_op(me, v != 0);                                                              \
        return old;                                                                                \
    }                                                                                              \
    SIM_EXPORT T __tsan_atomic##N##_fetch_sub(volatile T* a, T v, int)                             \
    {                                                                                              \
        SimThread* me = SELF();                                                                    \
        if (me) point(me, K_RMW, (const void*) a, PC());                                           \
        T old = __atomic_fetch_sub((T*) a, v, MO);                                                 \
        if (me) after_op(me, v != 0);                                                              \
        return old;                                                                                \
    }                                                                                              \
    SIM_EXPORT T __tsan_atomic##N##_fetch_and(volatile T* a, T v, int)                             \
    {                                                                                              \
        SimThread* me = SELF();                                                                    \
        if (me) point(me, K_RMW, (const void*) a, PC());                                           \
        T old = __atomic_fetch_and((T*) a, v, MO);                                                 \
        if (me) after_op(me, (T) (old & v) != old);                                                \
        return old;                                                                                \
    }                                                                                              \
    SIM_EXPORT T __tsan_atomic##N##_fetch_or(volatile T* a, T v, int)                              \
    {                                                                                              \
        SimThread* me = SELF();                                                                    \
        if (me) point(me, K_RMW, (const void*) a, PC());                                           \
        T old = __atomic_fetch_or((T*) a, v, MO);                                                  \
        if (me) after_op(me, (T) (old | v) != old);                                                \
        return old;                                                                                \
    }                                                                                              \
    SIM_EXPORT T __tsan_atomic##N##_fetch_xor(volatile T* a, T v, int)                             \
    {                                                                                              \
        SimThread* me = SELF();                                                                    \
        if (me) point(me, K_RMW, (const void*) a, PC());                                           \
        T old = __atomic_fetch_xor((T*) a, v, MO);                                                 \
        if (me) after_op(me, v != 0);                                                              \
        return old;                                                                                \
    }                                                                                              \
    SIM_EXPORT T __tsan_atomic##N##_fetch_nand(volatile T* a, T v, int)                            \
    {                                                                                              \
        SimThread* me = SELF();                                                                    \
        if (me) point(me, K_RMW, (const void*) a, PC());                                           \
        T old = __atomic_fetch_nand((T*) a, v, MO);                                                \
        if (me) after_op(me, true);                                                                \
        return old;                                                                                \
    }                                                                                              \
    SIM_EXPORT int __tsan_atomic##N##_compare_exchange_strong(volatile T* a, T* c, T v, int, int)  \
    {                                                                                              \
        SimThread* me = SELF();                                                                    \
        if (me) point(me, K_CAS, (const void*) a, PC());                                           \
        bool ok = __atomic_compare_exchange_n((T*) a, c, v, false, MO, MO);                        \
        if (me) tval(me, ok ? 3 : 2, (uint64_t) v, 0);                                             \
        if (me) after_op(me, ok);                                                                  \
        return ok;                                                                                 \
    }                                                                                              \
    SIM_EXPORT int __tsan_atomic##N##_compare_exchange_weak(volatile T* a, T* c, T v, int, int)    \
    {                                                                                              \
        SimThread* me = SELF();                                                                    \
        if (me) point(me, K_CAS, (const void*) a, PC());                                           \
        bool ok = __atomic_compare_exchange_n((T*) a, c, v, false, MO, MO);                        \
        if (me) tval(me, ok ? 3 : 2, (uint64_t) v, 0);                                             \
        if (me) after_op(me, ok);                                                                  \
        return ok;                                                                                 \
    }                                                                                              \
    SIM_EXPORT T __tsan_atomic##N##_compare_exchange_val(volatile T* a, T c, T v, int, int)        \
    {                                                                                              \
        SimThread* me = SELF();                                                                    \
        if (me) point(me, K_CAS, (const void*) a, PC());                                           \
        T exp = c;                                                                                 \
        bool ok = __atomic_compare_exchange_n((T*) a, &exp, v, false, MO, MO);                     \
        if (me) after_op(me, ok);                                                                  \
        return exp;                                                                                \
    }

DEF_ATOMICS(8, a8)
DEF_ATOMICS(16, a16)
DEF_ATOMICS(32, a32)
DEF_ATOMICS(64, a64)

// 128-bit: cmpxchg16b directly (no libatomic recursion)
static inline bool cas16(void* p, a128* expected, a128 desired)
{
    return __sync_bool_compare_and_swap((a128*) p, *expected, desired) ?
        true :
        (*expected = __sync_val_compare_and_swap((a128*) p, 0, 0), false);
}
static inline a128 load16(const void* p) { return __sync_val_compare_and_swap((a128*) p, 0, 0); }
static inline a128 xchg16(void* p, a128 v)
{
    a128 old = load16(p);
    while (!__sync_bool_compare_and_swap((a128*) p, old, v)) old = load16(p);
    return old;
}

SIM_EXPORT a128 __tsan_atomic128_load(const volatile a128* a, int)
{
    SimThread* me = SELF();
    if (me) point(me, K_LOAD, (const void*) a, PC());
    a128 v = load16((const void*) a);
    if (me) tval(me, 1, (uint64_t) v, (uint64_t) (v >> 64));
    if (me) after_op(me, false);
    return v;
}
SIM_EXPORT void __tsan_atomic128_store(volatile a128* a, a128 v, int)
{
    SimThread* me = SELF();
    if (me) point(me, K_STORE, (const void*) a, PC());
    a128 old = xchg16((void*) a, v);
    if (me) after_op(me, old != v);
}
SIM_EXPORT a128 __tsan_atomic128_exchange(volatile a128* a, a128 v, int)
{
    SimThread* me = SELF();
    if (me) point(me, K_RMW, (const void*) a, PC());
    a128 old = xchg16((void*) a, v);
    if (me) after_op(me, old != v);
    return old;
}
SIM_EXPORT int __tsan_atomic128_compare_exchange_strong(volatile a128* a, a128* c, a128 v, int, int)
{
    SimThread* me = SELF();
    if (me) point(me, K_CAS, (const void*) a, PC());
    bool ok = cas16((void*) a, c, v);
    if (me) tval(me, ok ? 3 : 2, (uint64_t) v, (uint64_t) (v >> 64));
    if (me) after_op(me, ok);
    return ok;
}
SIM_EXPORT int __tsan_atomic128_compare_exchange_weak(volatile a128* a, a128* c, a128 v, int, int)
{
    SimThread* me = SELF();
    if (me) point(me, K_CAS, (const void*) a, PC());
    bool ok = cas16((void*) a, c, v);
    if (me) tval(me, ok ? 3 : 2, (uint64_t) v, (uint64_t) (v >> 64));
    if (me) after_op(me, ok);
    return ok;
}
SIM_EXPORT a128 __tsan_atomic128_compare_exchange_val(volatile a128* a, a128 c, a128 v, int, int)
{
    SimThread* me = SELF();
    if (me) point(me, K_CAS, (const void*) a, PC());
    a128 exp = c;
    bool ok = cas16((void*) a, &exp, v);
    if (me) after_op(me, ok);
    return exp;
}

// ------------------------------------------------------------------------------------------------
// plain memory accesses: only translation units compiled with full TSan instrumentation (selected
// header-only workloads) call these. They are schedule points like atomic loads/stores, which makes
// data-race windows in header-only code reachable; they never count for spin detection.
static inline void mem_point(const void* addr, int kind, uintptr_t pc, int size = 0)
{
    SimThread* me = SELF();
    if (!me || me->atomic_depth > 0) return;
    g_st.mem_points++;
    point(me, kind, addr, pc);
    // the value read (for writes: the value about to be overwritten)
    if (size == 8)
        tval(me, 1, *(const uint64_t*) addr, 0);
    else if (size == 4)
        tval(me, 1, *(const uint32_t*) addr, 0);
}
#define DEF_MEM(N)                                                                                 \
    SIM_EXPORT void __tsan_read##N(void* a) { mem_point(a, K_MEMR, PC(), N); }                      \
    SIM_EXPORT void __tsan_write##N(void* a) { mem_point(a, K_MEMW, PC(), N); }                     \
    SIM_EXPORT void __tsan_unaligned_read##N(void* a) { mem_point(a, K_MEMR, PC()); }               \
    SIM_EXPORT void __tsan_unaligned_write##N(void* a) { mem_point(a, K_MEMW, PC()); }
DEF_MEM(1)
DEF_MEM(2)
DEF_MEM(4)
DEF_MEM(8)
DEF_MEM(16)
SIM_EXPORT void __tsan_read_range(void* a, unsigned long) { mem_point(a, K_MEMR, PC()); }
SIM_EXPORT void __tsan_write_range(void* a, unsigned long) { mem_point(a, K_MEMW, PC()); }
SIM_EXPORT void __tsan_vptr_update(void** a, void*) { mem_point(a, K_MEMW, PC()); }
SIM_EXPORT void __tsan_vptr_read(void** a) { mem_point(a, K_MEMR, PC()); }
SIM_EXPORT void __tsan_func_entry(void*) {}
SIM_EXPORT void __tsan_func_exit(void) {}
SIM_EXPORT void __tsan_ignore_thread_begin(void) {}
SIM_EXPORT void __tsan_ignore_thread_end(void) {}

SIM_EXPORT void sim_atomic_begin(void)
{
    SimThread* me = SELF();
    if (me) me->atomic_depth++;
}
SIM_EXPORT void sim_atomic_end(void)
{
    SimThread* me = SELF();
    if (me && me->atomic_depth > 0) me->atomic_depth--;
}

SIM_EXPORT void __tsan_atomic_thread_fence(int)
{
    SimThread* me = SELF();
    if (me) point(me, K_FENCE, nullptr, PC());
    __atomic_thread_fence(MO);
}
SIM_EXPORT void __tsan_atomic_signal_fence(int) { __atomic_signal_fence(MO); }
SIM_EXPORT void __tsan_init(void) {}

// libatomic generic entry points (clang lowers 16-byte std::atomic ops to these)
SIM_EXPORT bool simx___atomic_compare_exchange_16(void*, void*, a128, bool, int, int) __asm__("__atomic_compare_exchange_16");
SIM_EXPORT a128 simx___atomic_load_16(const void*, int) __asm__("__atomic_load_16");
SIM_EXPORT void simx___atomic_store_16(void*, a128, int) __asm__("__atomic_store_16");
SIM_EXPORT a128 simx___atomic_exchange_16(void*, a128, int) __asm__("__atomic_exchange_16");
SIM_EXPORT bool simx___atomic_compare_exchange(size_t, void*, void*, void*, int, int) __asm__("__atomic_compare_exchange");
SIM_EXPORT void simx___atomic_load(size_t, void*, void*, int) __asm__("__atomic_load");
SIM_EXPORT void simx___atomic_store(size_t, void*, void*, int) __asm__("__atomic_store");
SIM_EXPORT void simx___atomic_exchange(size_t, void*, void*, void*, int) __asm__("__atomic_exchange");
SIM_EXPORT bool simx___atomic_compare_exchange(
    size_t size, void* ptr, void* expected, void* desired, int, int)
{
    SimThread* me = SELF();
    if (me) point(me, K_CAS, ptr, PC());
    bool ok;
    switch (size)
    {
    case 1:
        ok = __atomic_compare_exchange_n((a8*) ptr, (a8*) expected, *(a8*) desired, false, MO, MO);
        break;
    case 2:
        ok = __atomic_compare_exchange_n(
            (a16*) ptr, (a16*) expected, *(a16*) desired, false, MO, MO);
        break;
    case 4:
        ok = __atomic_compare_exchange_n(
            (a32*) ptr, (a32*) expected, *(a32*) desired, false, MO, MO);
        break;
    case 8:
        ok = __atomic_compare_exchange_n(
            (a64*) ptr, (a64*) expected, *(a64*) desired, false, MO, MO);
        break;
    case 16:
    {
        a128 d;
        memcpy(&d, desired, 16);
        a128 e;
        memcpy(&e, expected, 16);
        ok = cas16(ptr, &e, d);
        if (!ok) memcpy(expected, &e, 16);
        if (me) tval(me, ok ? 3 : 2, (uint64_t) d, (uint64_t) (d >> 64));
        break;
    }
    default:
        fprintf(stderr, "pikasim: __atomic_compare_exchange size %zu unsupported\n", size);
        abort();
    }
    if (me) after_op(me, ok);
    return ok;
}
SIM_EXPORT void simx___atomic_load(size_t size, void* ptr, void* ret, int)
{
    SimThread* me = SELF();
    if (me) point(me, K_LOAD, ptr, PC());
    switch (size)
    {
    case 1: *(a8*) ret = __atomic_load_n((a8*) ptr, MO); break;
    case 2: *(a16*) ret = __atomic_load_n((a16*) ptr, MO); break;
    case 4: *(a32*) ret = __atomic_load_n((a32*) ptr, MO); break;
    case 8: *(a64*) ret = __atomic_load_n((a64*) ptr, MO); break;
    case 16:
    {
        a128 v = load16(ptr);
        memcpy(ret, &v, 16);
        break;
    }
    default:
        fprintf(stderr, "pikasim: __atomic_load size %zu unsupported\n", size);
        abort();
    }
    if (me) after_op(me, false);
}
SIM_EXPORT void simx___atomic_store(size_t size, void* ptr, void* val, int)
{
    SimThread* me = SELF();
    if (me) point(me, K_STORE, ptr, PC());
    switch (size)
    {
    case 1: __atomic_store_n((a8*) ptr, *(a8*) val, MO); break;
    case 2: __atomic_store_n((a16*) ptr, *(a16*) val, MO); break;
    case 4: __atomic_store_n((a32*) ptr, *(a32*) val, MO); break;
    case 8: __atomic_store_n((a64*) ptr, *(a64*) val, MO); break;
    case 16:
    {
        a128 v;
        memcpy(&v, val, 16);
        xchg16(ptr, v);
        break;
    }
    default:
        fprintf(stderr, "pikasim: __atomic_store size %zu unsupported\n", size);
        abort();
    }
    if (me) after_op(me, true);
}
SIM_EXPORT void simx___atomic_exchange(size_t size, void* ptr, void* val, void* ret, int)
{
    SimThread* me = SELF();
    if (me) point(me, K_RMW, ptr, PC());
    switch (size)
    {
    case 1: *(a8*) ret = __atomic_exchange_n((a8*) ptr, *(a8*) val, MO); break;
    case 2: *(a16*) ret = __atomic_exchange_n((a16*) ptr, *(a16*) val, MO); break;
    case 4: *(a32*) ret = __atomic_exchange_n((a32*) ptr, *(a32*) val, MO); break;
    case 8: *(a64*) ret = __atomic_exchange_n((a64*) ptr, *(a64*) val, MO); break;
    case 16:
    {
        a128 v;
        memcpy(&v, val, 16);
        a128 old = xchg16(ptr, v);
        memcpy(ret, &old, 16);
        break;
    }
    default:
        fprintf(stderr, "pikasim: __atomic_exchange size %zu unsupported\n", size);
        abort();
    }
    if (me) after_op(me, true);
}
SIM_EXPORT bool simx___atomic_compare_exchange_16(void* ptr, void* expected, a128 desired, bool, int, int)
{
    SimThread* me = SELF();
    if (me) point(me, K_CAS, ptr, PC());
    a128 e;
    memcpy(&e, expected, 16);
    bool ok = cas16(ptr, &e, desired);
    if (!ok) memcpy(expected, &e, 16);
    if (me) tval(me, ok ? 3 : 2, (uint64_t) desired, (uint64_t) (desired >> 64));
    if (me) after_op(me, ok);
    return ok;
}
SIM_EXPORT a128 simx___atomic_load_16(const void* ptr, int)
{
    SimThread* me = SELF();
    if (me) point(me, K_LOAD, ptr, PC());
    a128 v = load16(ptr);
    if (me) tval(me, 1, (uint64_t) v, (uint64_t) (v >> 64));
    if (me) after_op(me, false);
    return v;
}
SIM_EXPORT void simx___atomic_store_16(void* ptr, a128 v, int)
{
    SimThread* me = SELF();
    if (me) point(me, K_STORE, ptr, PC());
    xchg16(ptr, v);
    if (me) after_op(me, true);
}
SIM_EXPORT a128 simx___atomic_exchange_16(void* ptr, a128 v, int)
{
    SimThread* me = SELF();
    if (me) point(me, K_RMW, ptr, PC());
    a128 old = xchg16(ptr, v);
    if (me) after_op(me, true);
    return old;
}

// ------------------------------------------------------------------------------------------------
// mutexes
// ------------------------------------------------------------------------------------------------
struct MutexEnt {
    const void* addr;
    int owner;    // -1 free
    int count;
    int nwait;
};
#define MTAB (1 << 15)
static MutexEnt g_mtab[MTAB];

static MutexEnt* mutex_ent(const void* m)
{
    uintptr_t h = ((uintptr_t) m >> 3) * 0x9e3779b97f4a7c15ull;
    size_t i = (h >> 40) & (MTAB - 1);
    for (size_t n = 0; n < MTAB; n++, i = (i + 1) & (MTAB - 1))
    {
        MutexEnt* e = &g_mtab[i];
        if (e->addr == m) return e;
        if (e->addr == nullptr)
        {
            e->addr = m;
            e->owner = -1;
            e->count = 0;
            e->nwait = 0;
            return e;
        }
    }
    fprintf(stderr, "pikasim: mutex table full\n");
    abort();
}
static inline bool mutex_is_recursive(pthread_mutex_t* m)
{
    return (m->__data.__kind & 3) == PTHREAD_MUTEX_RECURSIVE_NP;
}
static inline bool mutex_is_errorcheck(pthread_mutex_t* m)
{
    return (m->__data.__kind & 3) == PTHREAD_MUTEX_ERRORCHECK_NP;
}

static void wake_waiters(int state, const void* obj)
{
    for (int i = 0; i < g_nthr; i++)
    {
        SimThread* t = &g_thr[i];
        if (t->st == state && t->wobj == obj) make_runnable(t);
    }
}

// acquire (blocking) without a leading schedule point
static int mutex_acquire(SimThread* me, pthread_mutex_t* m, bool timed, uint64_t deadline)
{
    MutexEnt* e = mutex_ent(m);
    for (;;)
    {
        if (e->owner < 0)
        {
            e->owner = me->id;
            e->count = 1;
            return 0;
        }
        if (e->owner == me->id)
        {
            if (mutex_is_recursive(m))
            {
                e->count++;
                return 0;
            }
            if (mutex_is_errorcheck(m)) return EDEADLK;
        }
        if (timed && g_vtime + CLOCK_BASE_NS >= deadline) return ETIMEDOUT;
        me->st = T_MUTEX;
        me->wobj = m;
        e->nwait++;
        if (timed) set_deadline(me, deadline - CLOCK_BASE_NS);
        block(me, K_LOCK);
        e->nwait--;
    }
}
static void mutex_release(SimThread* me, pthread_mutex_t* m)
{
    MutexEnt* e = mutex_ent(m);
    if (e->owner != me->id)
    {
        // unlocking a mutex we do not own in the simulation (locked before sim_begin?) — ignore
        if (e->owner < 0) return;
    }
    if (--e->count > 0) return;
    e->owner = -1;
    e->count = 0;
    if (e->nwait) wake_waiters(T_MUTEX, m);
}

SIM_EXPORT int pthread_mutex_lock(pthread_mutex_t* m)
{
    SimThread* me = SELF();
    if (!me)
    {
        if (!real_pthread_mutex_lock) resolve_all();
        return real_pthread_mutex_lock(m);
    }
    point(me, K_LOCK, m, PC());
    int r = mutex_acquire(me, m, false, 0);
    after_op(me, true);
    return r;
}
SIM_EXPORT int pthread_mutex_trylock(pthread_mutex_t* m)
{
    SimThread* me = SELF();
    if (!me)
    {
        if (!real_pthread_mutex_trylock) resolve_all();
        return real_pthread_mutex_trylock(m);
    }
    point(me, K_TRYLOCK, m, PC());
    MutexEnt* e = mutex_ent(m);
    if (e->owner < 0)
    {
        bool fail = false;
        if (g_cfg.strategy == SIM_SCRIPT)
            fail = !g_quiesced && script_find(me->id, me->npts, SIM_D_TRYFAIL) != nullptr;
        else if (!g_quiesced && g_cfg.p_tryfail && rnd32() < g_cfg.p_tryfail)
            fail = true;
        if (fail)
        {
            g_st.fault_counts[SIM_D_TRYFAIL]++;
            rec_add(me->id, SIM_D_TRYFAIL, me->npts, 0);
            hmix(0xF4000000ull | me->id);
            after_op(me, false);
            return EBUSY;
        }
        e->owner = me->id;
        e->count = 1;
        after_op(me, true);
        return 0;
    }
    if (e->owner == me->id && mutex_is_recursive(m))
    {
        e->count++;
        after_op(me, true);
        return 0;
    }
    after_op(me, false);
    return EBUSY;
}
SIM_EXPORT int pthread_mutex_unlock(pthread_mutex_t* m)
{
    SimThread* me = SELF();
    if (!me)
    {
        if (!real_pthread_mutex_unlock) resolve_all();
        return real_pthread_mutex_unlock(m);
    }
    point(me, K_UNLOCK, m, PC());
    mutex_release(me, m);
    after_op(me, true);
    return 0;
}
static uint64_t ts_to_ns(const struct timespec* ts)
{
    return (uint64_t) ts->tv_sec * 1000000000ull + (uint64_t) ts->tv_nsec;
}
SIM_EXPORT int pthread_mutex_timedlock(pthread_mutex_t* m, const struct timespec* abs)
{
    SimThread* me = SELF();
    if (!me)
    {
        if (!real_pthread_mutex_timedlock) resolve_all();
        return real_pthread_mutex_timedlock(m, abs);
    }
    point(me, K_LOCK, m, PC());
    int r = mutex_acquire(me, m, true, ts_to_ns(abs));
    after_op(me, true);
    return r;
}
SIM_EXPORT int pthread_mutex_clocklock(pthread_mutex_t* m, clockid_t, const struct timespec* abs)
{
    SimThread* me = SELF();
    if (!me)
    {
        if (!real_pthread_mutex_clocklock) resolve_all();
        return real_pthread_mutex_clocklock(m, CLOCK_MONOTONIC, abs);
    }
    point(me, K_LOCK, m, PC());
    int r = mutex_acquire(me, m, true, ts_to_ns(abs));
    after_op(me, true);
    return r;
}

// ------------------------------------------------------------------------------------------------
// condition variables
// ------------------------------------------------------------------------------------------------
static int cond_wait_common(
    SimThread* me, pthread_cond_t* c, pthread_mutex_t* m, bool timed, uint64_t abs_ns)
{
    // atomically (we hold the baton): release the mutex completely and enqueue
    MutexEnt* e = mutex_ent(m);
    int saved = e->count;
    if (e->owner == me->id)
    {
        e->owner = -1;
        e->count = 0;
        if (e->nwait) wake_waiters(T_MUTEX, m);
    }
    me->wake_reason = 0;
    if (timed && abs_ns <= g_vtime + CLOCK_BASE_NS) { me->wake_reason = 1; }
    else
    {
        me->st = T_COND;
        me->wobj = c;
        me->cmutex = m;
        me->arrival = ++g_arrival;
        g_ncondwait++;
        if (timed) set_deadline(me, abs_ns - CLOCK_BASE_NS);
        block(me, K_CWAIT);
    }
    int reason = me->wake_reason;
    // re-acquire
    mutex_acquire(me, m, false, 0);
    if (saved > 1) e->count = saved;
    after_op(me, true);
    return reason == 1 ? ETIMEDOUT : 0;
}

SIM_EXPORT int pthread_cond_wait(pthread_cond_t* c, pthread_mutex_t* m)
{
    SimThread* me = SELF();
    if (!me)
    {
        if (!real_pthread_cond_wait) resolve_all();
        return real_pthread_cond_wait(c, m);
    }
    point(me, K_CWAIT, c, PC());
    return cond_wait_common(me, c, m, false, 0);
}
SIM_EXPORT int pthread_cond_timedwait(
    pthread_cond_t* c, pthread_mutex_t* m, const struct timespec* abs)
{
    SimThread* me = SELF();
    if (!me)
    {
        if (!real_pthread_cond_timedwait) resolve_all();
        return real_pthread_cond_timedwait(c, m, abs);
    }
    point(me, K_CWAIT, c, PC());
    return cond_wait_common(me, c, m, true, ts_to_ns(abs));
}
SIM_EXPORT int pthread_cond_clockwait(
    pthread_cond_t* c, pthread_mutex_t* m, clockid_t clk, const struct timespec* abs)
{
    SimThread* me = SELF();
    if (!me)
    {
        if (!real_pthread_cond_clockwait) resolve_all();
        return real_pthread_cond_clockwait(c, m, clk, abs);
    }
    point(me, K_CWAIT, c, PC());
    return cond_wait_common(me, c, m, true, ts_to_ns(abs));
}
SIM_EXPORT int pthread_cond_signal(pthread_cond_t* c)
{
    SimThread* me = SELF();
    if (!me)
    {
        if (!real_pthread_cond_signal) resolve_all();
        return real_pthread_cond_signal(c);
    }
    point(me, K_CSIGNAL, c, PC());
    static SimThread* w[MAXT];
    int n = 0;
    SimThread* oldest = nullptr;
    for (int i = 0; i < g_nthr; i++)
    {
        SimThread* t = &g_thr[i];
        if (t->st == T_COND && t->wobj == c)
        {
            w[n++] = t;
            if (!oldest || t->arrival < oldest->arrival) oldest = t;
        }
    }
    if (n)
    {
        SimThread* v = oldest;
        if (g_cfg.strategy == SIM_SCRIPT && !g_quiesced)
        {
            const sim_decision* d = script_find(me->id, me->npts, SIM_D_SIGPICK);
            if (d)
                for (int i = 0; i < n; i++)
                    if ((uint64_t) w[i]->id == d->arg) v = w[i];
        }
        else if (!g_quiesced && n > 1)
            v = w[rnd_below(n)];
        if (v != oldest)
        {
            rec_add(me->id, SIM_D_SIGPICK, me->npts, v->id);
            g_st.fault_counts[SIM_D_SIGPICK]++;
        }
        v->wake_reason = 0;
        make_runnable(v);
    }
    after_op(me, true);
    return 0;
}
SIM_EXPORT int pthread_cond_broadcast(pthread_cond_t* c)
{
    SimThread* me = SELF();
    if (!me)
    {
        if (!real_pthread_cond_broadcast) resolve_all();
        return real_pthread_cond_broadcast(c);
    }
    point(me, K_CSIGNAL, c, PC());
    for (int i = 0; i < g_nthr; i++)
    {
        SimThread* t = &g_thr[i];
        if (t->st == T_COND && t->wobj == c)
        {
            t->wake_reason = 0;
            make_runnable(t);
        }
    }
    after_op(me, true);
    return 0;
}

// ------------------------------------------------------------------------------------------------
// once / static-init guards
// ------------------------------------------------------------------------------------------------
struct OnceEnt {
    const void* addr;
    int tid;
};
static OnceEnt g_once[128];

static OnceEnt* once_find(const void* a)
{
    for (auto& e : g_once)
        if (e.addr == a) return &e;
    return nullptr;
}
static OnceEnt* once_add(const void* a, int tid)
{
    for (auto& e : g_once)
        if (e.addr == nullptr)
        {
            e.addr = a;
            e.tid = tid;
            return &e;
        }
    fprintf(stderr, "pikasim: once table full\n");
    abort();
}
static void once_done(const void* a)
{
    OnceEnt* e = once_find(a);
    if (e) e->addr = nullptr;
    wake_waiters(T_ONCE, a);
}

SIM_EXPORT int pthread_once(pthread_once_t* ctl, void (*fn)(void))
{
    SimThread* me = SELF();
    if (!me)
    {
        if (!real_pthread_once) resolve_all();
        return real_pthread_once(ctl, fn);
    }
    if (__atomic_load_n(ctl, __ATOMIC_ACQUIRE) == 2) return 0;
    point(me, K_ONCE, ctl, PC());
    for (;;)
    {
        if (__atomic_load_n(ctl, __ATOMIC_ACQUIRE) == 2) return 0;
        OnceEnt* e = once_find(ctl);
        if (!e) break;
        me->st = T_ONCE;
        me->wobj = ctl;
        block(me, K_ONCE);
    }
    once_add(ctl, me->id);
    try
    {
        fn();
    }
    catch (...)
    {
        once_done(ctl);
        throw;
    }
    __atomic_store_n(ctl, 2, __ATOMIC_RELEASE);
    once_done(ctl);
    after_op(me, true);
    return 0;
}

SIM_EXPORT int __cxa_guard_acquire(uint64_t* g)
{
    SimThread* me = SELF();
    if (!me)
    {
        if (!real___cxa_guard_acquire) resolve_all();
        return real___cxa_guard_acquire(g);
    }
    if (*(volatile char*) g) return 0;
    point(me, K_ONCE, g, PC());
    for (;;)
    {
        if (*(volatile char*) g) return 0;
        OnceEnt* e = once_find(g);
        if (!e) break;
        if (e->tid == me->id) sim_fail("crash", "recursive static initialisation");
        me->st = T_ONCE;
        me->wobj = g;
        block(me, K_ONCE);
    }
    once_add(g, me->id);
    return 1;
}
SIM_EXPORT void __cxa_guard_release(uint64_t* g)
{
    SimThread* me = SELF();
    if (!me || !once_find(g))
    {
        if (!real___cxa_guard_release) resolve_all();
        real___cxa_guard_release(g);
        return;
    }
    *(volatile char*) g = 1;
    once_done(g);
    after_op(me, true);
}
SIM_EXPORT void __cxa_guard_abort(uint64_t* g)
{
    SimThread* me = SELF();
    if (!me || !once_find(g))
    {
        if (!real___cxa_guard_abort) resolve_all();
        real___cxa_guard_abort(g);
        return;
    }
    once_done(g);
}

// ------------------------------------------------------------------------------------------------
// threads
// ------------------------------------------------------------------------------------------------
static pthread_key_t g_exit_key;
static int g_exit_key_ok = 0;

static void thread_finish(SimThread* me)
{
    g_step++;
    me->npts++;
    me->st = T_FINISHED;
    for (int i = 0; i < g_nthr; i++)
    {
        SimThread* t = &g_thr[i];
        if (t->st == T_JOIN && t->join_target == me->id) make_runnable(t);
    }
    tl_self = nullptr;
    hmix(0xE0000000ull | me->id);
    // hand the baton on and never come back
    for (;;)
    {
        release_stalls();
        SimThread* dflt;
        SimThread* next = choose_other(me, &dflt);
        if (next)
        {
            if (g_cfg.strategy == SIM_SCRIPT && !g_quiesced)
            {
                const sim_decision* d = script_find(me->id, me->npts, SIM_D_SWITCH);
                if (d && d->arg < (uint64_t) g_nthr && g_thr[d->arg].st == T_RUNNABLE)
                    next = &g_thr[d->arg];
            }
            if (next != dflt) rec_add(me->id, SIM_D_SWITCH, me->npts, next->id);
            g_st.switches++;
            g_st.forced_switches++;
            hmix(g_step);
            hmix(((uint64_t) me->id << 32) | ((uint64_t) next->id << 8) | K_EXIT);
            next->slice = 0;
            unpark(next);
            park_forever();
        }
        bool released = false;
        for (int i = 0; i < g_nthr; i++)
            if (g_thr[i].st == T_STALL)
            {
                make_runnable(&g_thr[i]);
                released = true;
                break;
            }
        if (released) continue;
        if (g_next_deadline != ~0ull)
        {
            g_st.time_jumps++;
            if (g_next_deadline > g_vtime) g_vtime = g_next_deadline;
            expire_timers();
            continue;
        }
        sim_fail("deadlock", "last running thread exited; no runnable thread and no pending timer");
    }
}

static void exit_key_dtor(void* p)
{
    SimThread* me = (SimThread*) p;
    if (++me->exit_rounds < PTHREAD_DESTRUCTOR_ITERATIONS)
    {
        pthread_setspecific(g_exit_key, p);
        return;
    }
    if (!g_on) park_forever();
    thread_finish(me);
}

static void (*g_thread_start_hook)(void) = nullptr;
SIM_EXPORT void sim_set_thread_start_hook(void (*fn)(void)) { g_thread_start_hook = fn; }

static void* trampoline(void* p)
{
    SimThread* me = (SimThread*) p;
    tl_self = me;
    pthread_setspecific(g_exit_key, me);
    park(me);
    if (g_thread_start_hook) g_thread_start_hook();
    void* r = me->fn(me->arg);
    me->ret = r;
    return r;
}

SIM_EXPORT int pthread_create(
    pthread_t* th, const pthread_attr_t* attr, void* (*fn)(void*), void* arg)
{
    SimThread* me = SELF();
    if (!real_pthread_create) resolve_all();
    if (!me) return real_pthread_create(th, attr, fn, arg);
    point(me, K_CREATE, nullptr, PC());
    if (!g_exit_key_ok)
    {
        pthread_key_create(&g_exit_key, exit_key_dtor);
        g_exit_key_ok = 1;
    }
    if (g_nthr >= MAXT) sim_fail("crash", "too many simulated threads");
    SimThread* t = &g_thr[g_nthr];
    memset(t, 0, sizeof(*t));
    t->id = g_nthr;
    t->fn = fn;
    t->arg = arg;
    t->st = T_RUNNABLE;
    t->prio = (int64_t) (rnd64() >> 2);
    g_nthr++;
    g_st.threads_created++;
    g_wake_pending = 1;
    int r = real_pthread_create(th, attr, trampoline, t);
    if (r != 0)
    {
        g_nthr--;
        return r;
    }
    t->real = *th;
    hmix(0xC1000000ull | t->id);
    after_op(me, true);
    return 0;
}

static SimThread* find_by_handle(pthread_t h)
{
    for (int i = 0; i < g_nthr; i++)
        if (g_thr[i].st != T_UNUSED && pthread_equal(g_thr[i].real, h)) return &g_thr[i];
    return nullptr;
}

SIM_EXPORT int pthread_join(pthread_t th, void** ret)
{
    SimThread* me = SELF();
    if (!real_pthread_join) resolve_all();
    if (!me) return real_pthread_join(th, ret);
    SimThread* t = find_by_handle(th);
    if (!t) return real_pthread_join(th, ret);
    point(me, K_JOIN, nullptr, PC());
    while (t->st != T_FINISHED)
    {
        me->st = T_JOIN;
        me->join_target = t->id;
        block(me, K_JOIN);
    }
    if (ret) *ret = t->ret;
    after_op(me, true);
    return 0;
}
SIM_EXPORT int pthread_detach(pthread_t th)
{
    SimThread* me = SELF();
    if (!real_pthread_detach) resolve_all();
    if (!me) return real_pthread_detach(th);
    if (find_by_handle(th)) return 0;
    return real_pthread_detach(th);
}

// ------------------------------------------------------------------------------------------------
// yield / sleep / clocks
// ------------------------------------------------------------------------------------------------
SIM_EXPORT int sched_yield(void)
{
    SimThread* me = SELF();
    if (!me)
    {
        if (!real_sched_yield) resolve_all();
        return real_sched_yield();
    }
    point(me, K_YIELD, nullptr, PC());
    me->noprog++;
    return 0;
}

static void sim_sleep_until(SimThread* me, uint64_t abs_vns)
{
    if (abs_vns <= g_vtime)
    {
        point(me, K_YIELD, nullptr, 0);
        after_op(me, true);
        return;
    }
    point(me, K_YIELD, nullptr, 0);
    if (abs_vns <= g_vtime)
    {
        after_op(me, true);
        return;
    }
    me->st = T_SLEEP;
    set_deadline(me, abs_vns);
    block(me, K_SLEEP);
    after_op(me, true);
}

SIM_EXPORT int nanosleep(const struct timespec* req, struct timespec* rem)
{
    SimThread* me = SELF();
    if (!me)
    {
        if (!real_nanosleep) resolve_all();
        return real_nanosleep(req, rem);
    }
    sim_sleep_until(me, g_vtime + ts_to_ns(req));
    if (rem) rem->tv_sec = 0, rem->tv_nsec = 0;
    return 0;
}
SIM_EXPORT int clock_nanosleep(
    clockid_t clk, int flags, const struct timespec* req, struct timespec* rem)
{
    SimThread* me = SELF();
    if (!me)
    {
        if (!real_clock_nanosleep) resolve_all();
        return real_clock_nanosleep(clk, flags, req, rem);
    }
    uint64_t ns = ts_to_ns(req);
    if (flags & TIMER_ABSTIME)
        sim_sleep_until(me, ns > CLOCK_BASE_NS ? ns - CLOCK_BASE_NS : 0);
    else
        sim_sleep_until(me, g_vtime + ns);
    if (rem) rem->tv_sec = 0, rem->tv_nsec = 0;
    return 0;
}
SIM_EXPORT int usleep(useconds_t us)
{
    SimThread* me = SELF();
    if (!me)
    {
        if (!real_usleep) resolve_all();
        return real_usleep(us);
    }
    sim_sleep_until(me, g_vtime + (uint64_t) us * 1000ull);
    return 0;
}
SIM_EXPORT unsigned sleep(unsigned s)
{
    SimThread* me = SELF();
    if (!me)
    {
        if (!real_sleep) resolve_all();
        return real_sleep(s);
    }
    sim_sleep_until(me, g_vtime + (uint64_t) s * 1000000000ull);
    return 0;
}

static uint64_t clock_read(SimThread* me)
{
    point(me, K_CLOCK, nullptr, 0);
    advance_time(g_cfg.time_quantum_ns);
    if (g_cfg.strategy == SIM_SCRIPT)
    {
        const sim_decision* d = g_quiesced ? nullptr : script_find(me->id, me->npts, SIM_D_CLOCKJUMP);
        if (d)
        {
            g_st.fault_counts[SIM_D_CLOCKJUMP]++;
            rec_add(me->id, SIM_D_CLOCKJUMP, me->npts, d->arg);
            advance_time(d->arg);
        }
    }
    else if (!g_quiesced && g_cfg.p_clockjump && rnd32() < g_cfg.p_clockjump)
    {
        uint64_t j = 1 + rnd_below(g_cfg.clockjump_max_ns);
        g_st.fault_counts[SIM_D_CLOCKJUMP]++;
        rec_add(me->id, SIM_D_CLOCKJUMP, me->npts, j);
        hmix(0xF3000000ull ^ j);
        advance_time(j);
    }
    after_op(me, true);
    return CLOCK_BASE_NS + g_vtime;
}

SIM_EXPORT int clock_gettime(clockid_t clk, struct timespec* ts)
{
    SimThread* me = SELF();
    if (!me)
    {
        if (!real_clock_gettime) resolve_all();
        return real_clock_gettime(clk, ts);
    }
    uint64_t t = clock_read(me);
    ts->tv_sec = t / 1000000000ull;
    ts->tv_nsec = t % 1000000000ull;
    return 0;
}
SIM_EXPORT int gettimeofday(struct timeval* tv, void* tz)
{
    SimThread* me = SELF();
    if (!me)
    {
        if (!real_gettimeofday) resolve_all();
        return real_gettimeofday(tv, tz);
    }
    uint64_t t = clock_read(me);
    tv->tv_sec = t / 1000000000ull;
    tv->tv_usec = (t % 1000000000ull) / 1000;
    return 0;
}
SIM_EXPORT time_t time(time_t* out)
{
    SimThread* me = SELF();
    if (!me)
    {
        if (!real_time) resolve_all();
        return real_time(out);
    }
    time_t t = (time_t) ((CLOCK_BASE_NS + g_vtime) / 1000000000ull);
    if (out) *out = t;
    return t;
}

SIM_EXPORT int sched_getcpu(void)
{
    if (g_on) return 0;
    static int (*real)(void) = nullptr;
    if (!real) real = (int (*)(void)) dlsym(RTLD_NEXT, "sched_getcpu");
    return real ? real() : 0;
}

// pika's spin_k(k) is a pure delay loop of k PAUSE instructions with k growing without bound and no
// schedule point inside; under the baton it only burns wall time. Replace the delay by one
// (non-progress) schedule point. Semantically a no-op.
namespace pika { namespace execution { namespace this_thread { namespace detail {
    __attribute__((visibility("default"))) void spin_k(size_t k, char const* desc)
    {
        SimThread* me = SELF();
        if (!me)
        {
            static void (*real)(size_t, char const*) = nullptr;
            if (!real)
                real = (void (*)(size_t, char const*)) dlsym(
                    RTLD_NEXT, "_ZN4pika9execution11this_thread6detail6spin_kEmPKc");
            if (real) real(k, desc);
            return;
        }
        point(me, K_SPIN, nullptr, PC());
        after_op(me, false);
    }
}}}}

// thread binding is stubbed in simulation (the kernel scheduler is not part of the run)
SIM_EXPORT int sched_setaffinity(pid_t pid, size_t sz, const cpu_set_t* set)
{
    if (g_on) return 0;
    if (!real_sched_setaffinity) resolve_all();
    return real_sched_setaffinity(pid, sz, set);
}
SIM_EXPORT int pthread_setaffinity_np(pthread_t th, size_t sz, const cpu_set_t* set)
{
    if (g_on) return 0;
    if (!real_pthread_setaffinity_np) resolve_all();
    return real_pthread_setaffinity_np(th, sz, set);
}

// ------------------------------------------------------------------------------------------------
SIM_EXPORT size_t sim_describe(char* buf, size_t cap)
{
    static const char* names[] = {
        "unused", "runnable", "mutex", "cond", "join", "once", "sleep", "stall", "finished"};
    size_t off = 0;
    for (int i = 0; i < g_nthr && off + 160 < cap; i++)
    {
        SimThread* t = &g_thr[i];
        off += snprintf(buf + off, cap - off, "T%d:%s%s%s ", t->id, names[t->st],
            t->has_deadline ? "+dl" : "", is_stale_spinner(t) ? "+spin" : "");
        if (t->st == T_MUTEX && t->wobj)
        {
            MutexEnt* e = mutex_ent(t->wobj);
            off += snprintf(buf + off, cap - off, "(mutex %p owner T%d count %d) ", t->wobj, e->owner, e->count);
        }
        else if (t->st == T_COND)
            off += snprintf(buf + off, cap - off, "(cond %p) ", t->wobj);
    }
    return off;
}
