// Simulated single-rank MPI transport (C20). Defines the MPI_* functions pika and the harness call;
// the real libmpi is loaded (its data symbols such as ompi_mpi_comm_world are used as opaque
// handles) but never initialised. Requests complete after a drawn virtual delay, in an order
// unrelated to posting; a receive buffer is written only at completion.
#include "sim.h"

#include <mpi.h>

#include <sched.h>
#include <stdint.h>
#include <stdio.h>
#include <stdlib.h>
#include <string.h>

#define SIM_EXPORT extern "C" __attribute__((visibility("default")))

namespace {
    struct SimReq
    {
        uint32_t magic;
        int id;
        int kind;    // 0 send, 1 recv, 2 collective
        void* buf;
        size_t bytes;
        int tag;
        uint64_t post_ns, complete_ns;
        SimReq* peer;
        char* payload;
        bool reported;    // completion has been reported by a test call
        bool freed;
        uint64_t tests_after_report;
    };
    const uint32_t MAGIC = 0x51A7E57u;
    SimReq* g_reqs[4096];
    int g_nreq = 0;
    int g_initialized = 0, g_finalized = 0;
    uint64_t g_rng = 88172645463325252ull;
    uint64_t g_min_delay = 1000, g_max_delay = 200000, g_burst = 0;
    struct sim_mpi_stats g_stats;
    int g_hold = 0;
    int g_world_size = 1;

    uint64_t rnd()
    {
        g_rng ^= g_rng << 13;
        g_rng ^= g_rng >> 7;
        g_rng ^= g_rng << 17;
        return g_rng;
    }
    size_t type_size(MPI_Datatype t)
    {
        if (t == MPI_INT || t == MPI_FLOAT || t == MPI_UNSIGNED) return 4;
        if (t == MPI_DOUBLE || t == MPI_LONG || t == MPI_UNSIGNED_LONG || t == MPI_LONG_LONG) return 8;
        return 1;
    }
    uint64_t draw_completion(uint64_t base)
    {
        uint64_t d = g_min_delay + (g_max_delay > g_min_delay ? rnd() % (g_max_delay - g_min_delay) : 0);
        uint64_t t = base + d;
        if (g_burst) t = ((t / g_burst) + 1) * g_burst;    // completions arrive in bursts
        return t;
    }
    SimReq* new_req(int kind, void* buf, size_t bytes, int tag)
    {
        if (g_nreq >= 4096) abort();
        SimReq* r = (SimReq*) calloc(1, sizeof(SimReq));
        r->magic = MAGIC;
        r->id = g_nreq;
        r->kind = kind;
        r->buf = buf;
        r->bytes = bytes;
        r->tag = tag;
        r->post_ns = sim_now_ns();
        r->complete_ns = 0;
        g_reqs[g_nreq++] = r;
        g_stats.posted++;
        return r;
    }
    void match(SimReq* r)
    {
        // self-addressed messages: the oldest unmatched partner with the same tag
        for (int i = 0; i < g_nreq; i++)
        {
            SimReq* o = g_reqs[i];
            if (o == r || o->peer || o->kind == 2 || o->kind == r->kind || o->tag != r->tag) continue;
            o->peer = r;
            r->peer = o;
            SimReq* rv = r->kind == 1 ? r : o;
            uint64_t base = r->post_ns > o->post_ns ? r->post_ns : o->post_ns;
            rv->complete_ns = draw_completion(base);
            return;
        }
    }
    // has the request completed (in the transport's view) at the current virtual time?
    bool ready(SimReq* r)
    {
        if (g_hold) return false;
        if (r->kind == 1 && !r->peer) return false;
        return r->complete_ns != 0 && sim_now_ns() >= r->complete_ns;
    }
    SimReq* from_handle(MPI_Request h)
    {
        if (h == MPI_REQUEST_NULL || h == nullptr) return nullptr;
        SimReq* r = (SimReq*) h;
        if (r->magic != MAGIC)
        {
            g_stats.bad_handle++;
            return nullptr;
        }
        return r;
    }
    // one test of one request; returns true if it is (now) complete and reports it
    bool test_one(MPI_Request* req)
    {
        SimReq* r = from_handle(*req);
        if (!r) return true;    // MPI_REQUEST_NULL tests as complete
        g_stats.tests++;
        if (r->freed)
        {
            g_stats.test_on_freed++;
            return true;
        }
        if (!ready(r)) return false;
        if (r->kind == 1 && r->peer && r->buf && r->peer->payload)
        {
            size_t n = r->bytes < r->peer->bytes ? r->bytes : r->peer->bytes;
            memcpy(r->buf, r->peer->payload, n);    // the receive buffer is written at completion only
        }
        r->reported = true;
        r->freed = true;
        g_stats.completed++;
        g_stats.last_completion_seq = sim_seq();
        *req = MPI_REQUEST_NULL;
        return true;
    }
}    // namespace

SIM_EXPORT void sim_mpi_configure(uint64_t seed, uint64_t min_delay_ns, uint64_t max_delay_ns, uint64_t burst_ns)
{
    g_rng = seed ? seed : 88172645463325252ull;
    g_min_delay = min_delay_ns;
    g_max_delay = max_delay_ns;
    g_burst = burst_ns;
}
SIM_EXPORT void sim_mpi_get_stats(sim_mpi_stats* out)
{
    g_stats.inflight = 0;
    for (int i = 0; i < g_nreq; i++)
        if (!g_reqs[i]->reported) g_stats.inflight++;
    *out = g_stats;
}
// the reported size of MPI_COMM_WORLD (the simulated rank only ever talks to itself; pika creates its
// polling pool only when it believes there is more than one rank)
SIM_EXPORT void sim_mpi_set_world_size(int n) { g_world_size = n < 1 ? 1 : n; }
SIM_EXPORT void sim_mpi_hold(int on)
{
    if (g_hold && !on)
    {
        uint64_t now = sim_now_ns();
        for (int i = 0; i < g_nreq; i++)
            if (!g_reqs[i]->reported && g_reqs[i]->complete_ns != 0) g_reqs[i]->complete_ns = draw_completion(now);
    }
    g_hold = on;
}
// transport-side truth about one request (by its original handle)
SIM_EXPORT int sim_mpi_request_state(void* handle)
{
    SimReq* r = (SimReq*) handle;
    if (!r || r->magic != MAGIC) return -1;
    if (r->reported) return 2;
    return ready(r) ? 1 : 0;
}

extern "C" {
int MPI_Init_thread(int*, char***, int required, int* provided)
{
    g_initialized = 1;
    if (provided) *provided = required;
    return MPI_SUCCESS;
}
int MPI_Init(int*, char***)
{
    g_initialized = 1;
    return MPI_SUCCESS;
}
int MPI_Initialized(int* flag)
{
    *flag = g_initialized;
    return MPI_SUCCESS;
}
int MPI_Finalized(int* flag)
{
    *flag = g_finalized;
    return MPI_SUCCESS;
}
int MPI_Finalize(void)
{
    g_finalized = 1;
    return MPI_SUCCESS;
}
int MPI_Query_thread(int* provided)
{
    *provided = MPI_THREAD_MULTIPLE;
    return MPI_SUCCESS;
}
int MPI_Comm_rank(MPI_Comm, int* rank)
{
    *rank = 0;
    return MPI_SUCCESS;
}
int MPI_Comm_size(MPI_Comm, int* size)
{
    *size = g_world_size;
    return MPI_SUCCESS;
}
int MPI_Get_processor_name(char* name, int* len)
{
    strcpy(name, "pikasim");
    *len = 7;
    return MPI_SUCCESS;
}
int MPI_Error_string(int code, char* str, int* len)
{
    *len = snprintf(str, MPI_MAX_ERROR_STRING, "simulated MPI error %d", code);
    return MPI_SUCCESS;
}
int MPI_Comm_create_errhandler(MPI_Comm_errhandler_function*, MPI_Errhandler* eh)
{
    *eh = MPI_ERRHANDLER_NULL;
    return MPI_SUCCESS;
}
int MPI_Comm_set_errhandler(MPI_Comm, MPI_Errhandler) { return MPI_SUCCESS; }
int MPI_Errhandler_free(MPI_Errhandler* eh)
{
    *eh = MPI_ERRHANDLER_NULL;
    return MPI_SUCCESS;
}
int MPI_Type_size(MPI_Datatype t, int* size)
{
    *size = (int) type_size(t);
    return MPI_SUCCESS;
}

int MPI_Isend(const void* buf, int count, MPI_Datatype dt, int, int tag, MPI_Comm, MPI_Request* req)
{
    sim_point_user();
    size_t bytes = (size_t) count * type_size(dt);
    SimReq* r = new_req(0, nullptr, bytes, tag);
    r->payload = (char*) malloc(bytes ? bytes : 1);
    memcpy(r->payload, buf, bytes);    // eager: the data is captured at posting time
    r->complete_ns = draw_completion(r->post_ns);
    match(r);
    *req = (MPI_Request) r;
    return MPI_SUCCESS;
}
int MPI_Irecv(void* buf, int count, MPI_Datatype dt, int, int tag, MPI_Comm, MPI_Request* req)
{
    sim_point_user();
    SimReq* r = new_req(1, buf, (size_t) count * type_size(dt), tag);
    match(r);
    *req = (MPI_Request) r;
    return MPI_SUCCESS;
}
int MPI_Ibcast(void*, int, MPI_Datatype, int, MPI_Comm, MPI_Request* req)
{
    sim_point_user();
    SimReq* r = new_req(2, nullptr, 0, -1);
    r->complete_ns = draw_completion(r->post_ns);
    *req = (MPI_Request) r;
    return MPI_SUCCESS;
}
int MPI_Ibarrier(MPI_Comm, MPI_Request* req)
{
    sim_point_user();
    SimReq* r = new_req(2, nullptr, 0, -1);
    r->complete_ns = draw_completion(r->post_ns);
    *req = (MPI_Request) r;
    return MPI_SUCCESS;
}
int MPI_Start(MPI_Request*) { return MPI_SUCCESS; }

int MPI_Test(MPI_Request* req, int* flag, MPI_Status*)
{
    sim_point_user();
    *flag = test_one(req) ? 1 : 0;
    return MPI_SUCCESS;
}
int MPI_Testany(int count, MPI_Request reqs[], int* index, int* flag, MPI_Status*)
{
    sim_point_user();
    *flag = 0;
    *index = MPI_UNDEFINED;
    int active = 0;
    // completion order is unrelated to posting order: start scanning at a drawn position
    int start = count ? (int) (rnd() % (uint64_t) count) : 0;
    for (int k = 0; k < count; k++)
    {
        int i = (start + k) % count;
        if (reqs[i] == MPI_REQUEST_NULL) continue;
        active++;
        if (test_one(&reqs[i]))
        {
            *flag = 1;
            *index = i;
            return MPI_SUCCESS;
        }
    }
    if (active == 0) *flag = 1;    // no active requests: flag = true, index = MPI_UNDEFINED
    return MPI_SUCCESS;
}
int MPI_Testsome(int incount, MPI_Request reqs[], int* outcount, int indices[], MPI_Status*)
{
    sim_point_user();
    int n = 0, active = 0;
    for (int i = 0; i < incount; i++)
    {
        if (reqs[i] == MPI_REQUEST_NULL) continue;
        active++;
        if (test_one(&reqs[i])) indices[n++] = i;
    }
    *outcount = active == 0 ? MPI_UNDEFINED : n;
    return MPI_SUCCESS;
}
int MPI_Wait(MPI_Request* req, MPI_Status* st)
{
    int flag = 0;
    while (!flag)
    {
        MPI_Test(req, &flag, st);
        if (!flag) sched_yield();
    }
    return MPI_SUCCESS;
}
int MPI_Request_free(MPI_Request* req)
{
    SimReq* r = from_handle(*req);
    if (r) r->freed = true;
    *req = MPI_REQUEST_NULL;
    return MPI_SUCCESS;
}
}
